"""C09 — auto-profiling profiles exactly what was asked for.
Proof: Props/C09.lean over Model.Select (match_sound, match_prefix, lookalike_unmatched, match_complete_partial, walk_names,
register_sound_partial; witnesses deep_subpackage_witness = F-C09b, foreign_witness = F-C09a, methods_witness = F-C09c) and C08 for
the whole-script case.
Tie: K09 — the real ProfmodExtractor matching (on generated programs x selections, and on synthetic name lists) and the real run-time
registration (on synthetic modules / classes) against the model.
Oracle: real `kernprof -l -p … prog.py` runs: the functions in the written statistics against the functions *defined in* the files
under the selection and imported at the top of the script, computed from the layout (not from the implementation)."""
import ast
import concurrent.futures as cf
import json
import os
import shutil
import subprocess
import tempfile

import autoprog
from common import run_worker, lean_driver, real_env, PY, SCRATCH_ROOT

LEVEL = 'proof'

# a module file that is a symbolic link to a file stored elsewhere under another name: it is imported, selected and named by the link
LINKED = 'def lk(x):\n    return x + 1\n\n\ndef lk2(x):\n    return lk(x) * 2\n'
LINKS = json.dumps({'linked.py': 'store/linked_impl_v2.py'})
MIXED = 'from other import of\n\n\ndef mx(x):\n    return of(x) + 1\n'
KLASS = ('class HK2:\n    def plain(self, x):\n        return x\n\n    @staticmethod\n    def st(x):\n        return x\n\n    @classmethod\n    def cl(cls, x):\n        return x\n\n'
         '    @property\n    def pr(self):\n        return 1\n\n\ndef kfree(x):\n    return x\n\n\ndef pyth(x):\n    return x * x\n')     # a name whose dotted selection ends like a file name (`klass.pyth`)
SELECTIONS = [['linked'], ['PATH:linked.py'], ['helper'], ['PATH:helper.py'], ['pkgk'], ['PATH:pkgk'], ['pkgk.sib'], ['pkgk.sub'], ['helper.hf'], ['helper.HK'], ['other'], ['helper,other'],
              ['helper', 'pkgk.sub.deep'], ['mixed'], ['klass'], ['klass.HK2'], ['klass.pyth'], ['klass.kfree,klass.pyth'], ['PATH:prog.py'], ['nosuchmod'], ['PATH:does/not/exist.py'], ['pkgkx'], ['pk'], ['helpe'], ['pkg']]
EXTRA_IMPORTS = [('import linked', 'linked.lk2(1)'), ('from linked import lk', 'lk(2)'), ('import mixed', 'mixed.mx(1)'), ('from mixed import mx', 'mx(2)'), ('import klass', 'klass.kfree(1)'), ('from klass import HK2', 'HK2().plain(1)'), ('from klass import pyth, kfree as kf2', 'pyth(3) + kf2(1)')]


def defs_in(text):
    """function names defined in a source text: plain functions, and per class (kind, name)"""
    tree = ast.parse(text)
    out = {'funcs': [], 'classes': {}}
    for node in tree.body:
        if isinstance(node, (ast.FunctionDef, ast.AsyncFunctionDef)):
            out['funcs'].append(node.name)
        elif isinstance(node, ast.ClassDef):
            ms = []
            for m in node.body:
                if isinstance(m, (ast.FunctionDef, ast.AsyncFunctionDef)):
                    decos = [d.id for d in m.decorator_list if isinstance(d, ast.Name)]
                    kind = 'static' if 'staticmethod' in decos else 'class' if 'classmethod' in decos else 'prop' if 'property' in decos else 'plain'
                    ms.append((kind, m.name))
            out['classes'][node.name] = ms
    # definitions nested at any depth (in functions, classes, compound statements); the fallback `def profile` of the prelude never runs under kernprof
    out['nested'] = sorted({n.name for n in ast.walk(tree) if isinstance(n, (ast.FunctionDef, ast.AsyncFunctionDef)) and n.name != 'profile'})
    return out


MODFILES = {'linked': 'linked.py', 'helper': 'helper.py', 'other': 'other.py', 'mixed': 'mixed.py', 'klass': 'klass.py', 'pkgk': 'pkgk/__init__.py', 'pkgk.sib': 'pkgk/sib.py',
            'pkgk.sub': 'pkgk/sub/__init__.py', 'pkgk.sub.deep': 'pkgk/sub/deep.py', 'pkgk.sub.dpkg': 'pkgk/sub/dpkg/__init__.py'}


def under(sel, name):
    return name == sel or name.startswith(sel + '.')


def expectation(prog, files, sel_names):
    """from the layout: (must_not: files whose functions may never appear, should: (file, func) pairs the property asks for, with a reason tag)"""
    selected_files = set()
    for s in sel_names:
        for mod, f in MODFILES.items():
            if under(s, mod) or under(mod, s):       # the selection is the module, contains it, or names something inside it
                if under(s, mod) or s.startswith(mod + '.'):
                    selected_files.add(f)
    should = []
    for st in prog['top_imports']:
        node = ast.parse(st).body[0]
        if isinstance(node, ast.Import):
            targets = [(a.name, None) for a in node.names]
        else:
            targets = [(node.module, a.name) for a in node.names]
        for mod, attr in targets:
            full = mod if attr is None else mod + '.' + attr
            if not any(under(s, full) or under(s, mod) for s in sel_names):
                continue
            if attr == '*':
                should.append((MODFILES.get(mod), '*', 'star'))
                continue
            if full in MODFILES:               # a module / package object
                d = defs_in(files[MODFILES[full]])
                deep = full.count('.') >= 2 and not any(s == full or s == full.rsplit('.', 1)[0] for s in sel_names) and MODFILES[full].endswith('__init__.py')
                for fn in d['funcs']:
                    should.append((MODFILES[full], fn, 'deep' if deep else 'func'))
                for cn, ms in d['classes'].items():
                    for kind, mn in ms:
                        should.append((MODFILES[full], mn, 'method-' + kind))
            elif mod in MODFILES:              # a function or class inside a module
                d = defs_in(files[MODFILES[mod]])
                if attr in d['funcs']:
                    should.append((MODFILES[mod], attr, 'func'))
                elif attr in d['classes']:
                    for kind, mn in d['classes'][attr]:
                        should.append((MODFILES[mod], mn, 'method-' + kind))
    return selected_files, should


def real_run(build, files, script, prof_mod, prof_imports=False):
    d = tempfile.mkdtemp(prefix='c09r-', dir=SCRATCH_ROOT)
    try:
        for rel, text in files.items():
            p = os.path.join(d, rel)
            os.makedirs(os.path.dirname(p), exist_ok=True)
            with open(p, 'w') as fh:
                fh.write(text)
        for rel, target in json.loads(files.get('.links.json', '{}')).items():
            os.makedirs(os.path.dirname(os.path.join(d, target)), exist_ok=True)
            os.replace(os.path.join(d, rel), os.path.join(d, target))
            os.symlink(os.path.join(d, target), os.path.join(d, rel))
        e = real_env(build)
        popts = []
        for x in prof_mod:
            popts += ['-p', os.path.join(d, x[5:]) if x.startswith('PATH:') else x]
        if prof_imports:
            popts.append('--prof-imports')
        b = subprocess.run([PY, '-m', 'kernprof', '-l'] + popts + [script], cwd=d, env=e, capture_output=True, text=True, timeout=120)
        keys = None
        lprof = os.path.join(d, script + '.lprof')
        if os.path.exists(lprof):
            q = subprocess.run([PY, '-c', 'import sys,json,line_profiler;s=line_profiler.load_stats(sys.argv[1]);print(json.dumps([list(k) for k in s.timings]))', lprof],
                               cwd=d, env=e, capture_output=True, text=True)
            keys = [[os.path.relpath(k[0], os.path.realpath(d)) if os.path.isabs(k[0]) else k[0], k[2]] for k in json.loads(q.stdout.strip().splitlines()[-1])]
        return {'rc': b.returncode, 'err': b.stderr[-500:], 'keys': keys}
    finally:
        shutil.rmtree(d, ignore_errors=True)


def module_run(build, with_dir):
    """`kernprof -l -p report -m report`: the module being run is itself the selection (given as a dotted name); optionally the working directory
    also holds a data directory of the same name (`report/`, no package) next to `report.py`"""
    d = tempfile.mkdtemp(prefix='c09m-', dir=SCRATCH_ROOT)
    try:
        with open(os.path.join(d, 'report.py'), 'w') as fh:
            fh.write('def fib(n):\n    return n if n < 2 else fib(n - 1) + fib(n - 2)\n\n\ndef main():\n    print(fib(6))\n\n\nif __name__ == "__main__":\n    main()\n')
        if with_dir:
            os.makedirs(os.path.join(d, 'report'))
            open(os.path.join(d, 'report', 'data.txt'), 'w').close()
        e = real_env(build)
        b = subprocess.run([PY, '-m', 'kernprof', '-l', '-p', 'report', '-m', 'report'], cwd=d, env=e, capture_output=True, text=True, timeout=120)
        keys = None
        lprofs = [f for f in os.listdir(d) if f.endswith('.lprof')]
        if lprofs:
            q = subprocess.run([PY, '-c', 'import sys,json,line_profiler;s=line_profiler.load_stats(sys.argv[1]);print(json.dumps(sorted(k[2] for k, v in s.timings.items() if v)))',
                                os.path.join(d, lprofs[0])], cwd=d, env=e, capture_output=True, text=True)
            keys = json.loads(q.stdout.strip().splitlines()[-1])
        return {'rc': b.returncode, 'err': b.stderr[-400:], 'out': b.stdout[:40], 'profiled': keys}
    finally:
        shutil.rmtree(d, ignore_errors=True)


def run(ctx):
    ctx.prove('LPVerif.Props.C09', 'LPVerif/Props/C09.lean', drivers=('Select', 'FS'))
    build = ctx.build()
    nprog = 40 if ctx.quick else 400
    if ctx.broken:
        nprog *= 3
    # ---- generated programs x selections
    cases = []
    for i in range(nprog):
        r = ctx.rng.fork('p%d' % i)
        prog = autoprog.gen_program(r)
        files = dict(prog['files'])
        files['mixed.py'] = MIXED
        files['linked.py'] = LINKED
        files['.links.json'] = LINKS
        files['klass.py'] = KLASS
        extra = r.sample(EXTRA_IMPORTS, r.below(3))
        text = files['prog.py']
        head, tail = text.split('if __name__ == "__main__":')
        anchor = 'try:\n    profile'
        text = head.replace(anchor, ''.join(st + '\n' for st, _e in extra) + anchor, 1) + 'if __name__ == "__main__":' + tail + ''.join('    print(repr(%s))\n' % e for _s, e in extra)
        files['prog.py'] = text
        tree = ast.parse(text)
        prog['top_imports'] = [ast.unparse(n) for n in tree.body if isinstance(n, (ast.Import, ast.ImportFrom)) and getattr(n, 'module', '') != '__future__']
        for sel in (SELECTIONS if not ctx.quick else r.sample(SELECTIONS, 7)):
            cases.append({'files': files, 'script': 'prog.py', 'prof_mod': sel, 'prog': prog})
    # ---- synthetic matching problems and registration problems
    comps = ['pkg', 'pkgx', 'pk', 'sub', 'm', 'deep', 'a']
    synth = []
    for i in range(300 if ctx.quick else 5000):
        r = ctx.rng.fork('s%d' % i)
        names = ['.'.join(r.choice(comps) for _ in range(r.below(3) + 1)) for _ in range(r.below(6) + 1)]
        M = ['.'.join(r.choice(comps) for _ in range(r.below(3) + 1)) for _ in range(r.below(4) + 1)] + r.sample(names, r.below(2))
        imps = []
        for j, n in enumerate(names):
            imps.append([n, r.choice([n, 'al%d' % j]), r.below(4) if r.chance(1, 4) else j])
        synth.append({'M': M, 'imps': imps})
    regs = []
    for i in range(200 if ctx.quick else 3000):
        r = ctx.rng.fork('g%d' % i)

        def rand_obj(depth=0):
            k = r.below(10)
            if k < 4:
                return ['f', r.below(12) + 1, r.below(3)]
            if k < 7:
                return ['c', r.below(3), [r.choice(['f', 's', 'c', 'p']) + str(r.below(12) + 1) if r.chance(4, 5) else 'o' for _ in range(r.below(4))]]
            if k < 8 and depth == 0:
                return ['m', r.below(3)]
            return ['o']
        ns = {str(k): [rand_obj(1) for _ in range(r.below(5))] for k in range(3)}
        regs.append({'ns': ns, 'item': rand_obj(0)})
    ctx.log('%d extractor runs, %d synthetic matchings, %d registrations' % (len(cases), len(synth), len(regs)))
    nw = 8
    parts = [{'extract': [{k: v for k, v in c.items() if k != 'prog'} for c in cases[i::nw]], 'synthetic_match': synth[i::nw], 'register': regs[i::nw]} for i in range(nw)]
    with cf.ThreadPoolExecutor(max_workers=nw) as ex:
        outs = list(ex.map(lambda p: run_worker(build, 'c09_worker.py', p, 1200), parts))

    def gather(key, n):
        res = [None] * n
        for i, o in enumerate(outs):
            for j, r in enumerate(o[key]):
                res[i + j * nw] = r
        return res
    rex, rsy, rrg = gather('extract', len(cases)), gather('synthetic_match', len(synth)), gather('register', len(regs))
    # ---- the names a selected package expands to, against the layout: the selection itself plus the dotted name of every module file and
    # (sub-)package directory below it, as the import system names them from the script's directory
    pkg_dirs = {'pkgk': 'pkgk', 'pkgk.sub': 'pkgk/sub', 'pkgk.sub.dpkg': 'pkgk/sub/dpkg'}
    for c, r in zip(cases, rex):
        if 'M' not in r:
            continue
        for sel in c['prof_mod']:
            name = {'PATH:pkgk': 'pkgk', 'PATH:pkgk/sub': 'pkgk.sub'}.get(sel, sel)
            if name not in pkg_dirs:
                continue
            below, subpkgs = set(), set()
            for rel in c['files']:
                if rel.startswith(pkg_dirs[name] + '/') and rel.endswith('.py'):
                    parts = rel[:-3].split('/')
                    if parts[-1] == '__init__':
                        parts = parts[:-1]
                        subpkgs.add('.'.join(parts))
                    below.add('.'.join(parts))
            got = set(r['M'])
            missing = (below | {name}) - got
            extra = [x for x in got if x not in below and x not in [y if not y.startswith('PATH:') else name for y in c['prof_mod']]]
            if missing or extra:
                # recorded finding F-C09b: the names of the sub-packages themselves are not among the names to profile
                cls = 'F-C09b' if not extra and missing <= subpkgs else None
                ctx.fail('a selected package does not expand to the names of the modules below it',
                         {'finding_class': cls, 'prof_mod': c['prof_mod'], 'names_to_profile': sorted(got), 'modules_below_the_selection': sorted(below | {name}),
                          'missing': sorted(missing), 'unexpected': sorted(extra)})
                break
    # ---- every selection given as a dotted name (module, package, class or function; resolvable or not) is among the names to profile
    for c, r in zip(cases, rex):
        if 'M' not in r:
            continue
        dotted = [x for sel in c['prof_mod'] if not sel.startswith('PATH:') for x in sel.split(',') if '/' not in x and not x.endswith('.py')]
        lost = [x for x in dotted if x not in r['M']]
        if lost:
            ctx.fail('a selection given as a dotted name is not among the names to profile',
                     {'finding_class': None, 'prof_mod': c['prof_mod'], 'dropped': lost, 'names_to_profile': sorted(r['M'])})
            break
    kdiff = 0
    if getattr(ctx, 'driver_ok', True):
        lines = []
        for r in rex:
            if 'M' in r:
                lines.append('match %s | %s' % (' '.join(r['M']), ' '.join('%s %s %d' % (n, a, i) for n, a, i in r['imps'])))
        for c in synth:
            lines.append('match %s | %s' % (' '.join(c['M']), ' '.join('%s %s %d' % (n, a, i) for n, a, i in c['imps'])))

        def enc(o):
            if o[0] == 'f':
                return 'f:%d:%d' % (o[1], o[2])
            if o[0] == 'c':
                return 'c:%d:%s' % (o[1], ','.join(o[2]))
            if o[0] == 'm':
                return 'm:%d' % o[1]
            return 'o'
        for c in regs:
            lines.append('reset')
            for k, objs in c['ns'].items():
                lines.append('ns %s %s' % (k, ' '.join(enc(o) for o in objs)))
            lines.append('register ' + enc(c['item']))
        mo = lean_driver('select', lines)
        k = 0
        for r in rex:
            if 'M' in r:
                got = sorted([int(x.split('=')[0]), x.split('=', 1)[1]] for x in mo[k].split())
                if got != r['found']:
                    kdiff += 1
                    ctx.broken.append(('K09 correspondence (matching)', 'M %s imports %s: model %s real %s' % (r['M'], r['imps'], got, r['found'])))
                k += 1
        for c, r in zip(synth, rsy):
            got = sorted([int(x.split('=')[0]), x.split('=', 1)[1]] for x in mo[k].split())
            if 'found' in r and got != sorted(r['found']):
                kdiff += 1
                ctx.broken.append(('K09 correspondence (synthetic matching)', 'case %s: model %s real %s' % (json.dumps(c), got, r['found'])))
            k += 1
        for c, r in zip(regs, rrg):
            got = [int(x) for x in mo[k].split()]
            if 'registered' in r and sorted(set(got)) != sorted(set(r['registered'])):
                kdiff += 1
                ctx.broken.append(('K09 correspondence (registration)', 'case %s: model %s real %s' % (json.dumps(c), got, r['registered'])))
            k += 1
    # ---- the imports the extractor reads from the script, against the script's syntax tree read here: every name bound by a top-level
    # import statement, once (first occurrence), with the number of its statement
    for c, r in zip(cases, rex):
        if 'imps' not in r:
            continue
        tree = ast.parse(c['files'][c['script']])
        want, seen = [], set()
        for idx, node in enumerate(tree.body):
            if isinstance(node, ast.Import):
                for a in node.names:
                    if a.name not in seen:
                        seen.add(a.name)
                        want.append([a.name, a.asname or a.name, idx])
            elif isinstance(node, ast.ImportFrom) and node.level == 0:
                for a in node.names:
                    full = node.module + '.' + a.name
                    if a.name != '*' and full not in seen:
                        seen.add(full)
                        want.append([full, a.asname or a.name, idx])
        if [list(x) for x in r['imps']] != want:
            miss = [x for x in want if x not in [list(y) for y in r['imps']]]
            extra = [list(y) for y in r['imps'] if list(y) not in want]
            ctx.fail('the imports read from the script are not the names its top-level import statements bind',
                     {'finding_class': None, 'prof_mod': c['prof_mod'], 'missing': miss[:6], 'unexpected': extra[:6], 'source': c['files'][c['script']][:1500]})
            break
    # ---- K09 (expansion): the names the real code derives from a selected package = Model.Select.namesUnder over Model.FS.walk of the same tree
    if getattr(ctx, 'driver_ok', True):
        import c18
        sel_dirs = {'pkgk': 'pkgk', 'PATH:pkgk': 'pkgk', 'pkgk.sub': 'pkgk/sub', 'PATH:pkgk/sub': 'pkgk/sub'}
        seen_layouts = {}
        for c, r in zip(cases, rex):
            if 'M' not in r or len(c['prof_mod']) != 1 or c['prof_mod'][0] not in sel_dirs:
                continue
            rel = sel_dirs[c['prof_mod'][0]]
            key = (rel, tuple(sorted(f for f in c['files'] if f.startswith('pkgk/'))))
            if key not in seen_layouts:
                tree = {}
                for f in c['files']:
                    node = tree
                    parts = f.split('/')
                    for comp in parts[:-1]:
                        node = node.setdefault(comp, {})
                    node[parts[-1]] = None
                fs_out = lean_driver('fs', ['roots ' + ' '.join(c18.encode(tree)), 'walk 0 ' + rel, 'walkpkgs 0 ' + rel])
                walked, pkgs = fs_out[-2].split(), fs_out[-1].split()
                seen_layouts[key] = lean_driver('select', ['expand %s %s | %s' % (rel.replace('/', '.'), ' '.join(walked), ' '.join(pkgs))])[-1].split()
            if sorted(set(r['M'])) != sorted(set(seen_layouts[key])):
                kdiff += 1
                ctx.broken.append(('K09 correspondence (expansion of a selected package)', 'selection %s: model %s real %s' % (c['prof_mod'], sorted(set(seen_layouts[key])), sorted(set(r['M'])))))
                break
    for r in rex + rsy + rrg:
        if 'harness_error' in r:
            ctx.broken.append(('harness', r['harness_error'][-1200:]))
    # ---- oracle: real kernprof runs
    nreal = 60 if ctx.quick else 500
    sample = ctx.rng.fork('real').sample(cases, min(nreal, len(cases)))
    # crafted cases for the recorded findings run first, so that a change in them is always seen
    def crafted(imports_calls, sel, defs=()):
        r = ctx.rng.fork('crafted')
        prog = autoprog.gen_program(r)
        files = dict(prog['files'])
        files['mixed.py'] = MIXED
        files['linked.py'] = LINKED
        files['.links.json'] = LINKS
        files['klass.py'] = KLASS
        text = (autoprog.PRELUDE + ''.join(st + '\n' for st, _e in imports_calls) + ''.join('\n\n' + src for src, _e in defs) + '\nif __name__ == "__main__":\n'
                + ''.join('    print(repr(%s))\n' % e for _s, e in list(imports_calls) + list(defs)))
        files['prog.py'] = text
        prog['top_imports'] = [st for st, _e in imports_calls]
        return {'files': files, 'script': 'prog.py', 'prof_mod': sel, 'prog': prog}
    sample = [crafted([('import mixed', 'mixed.mx(1)')], ['mixed']),
              crafted([('import linked', 'linked.lk2(1)')], ['linked']), crafted([('from linked import lk', 'lk(1)')], ['PATH:linked.py']),
              crafted([('from pkgk.sub import dpkg', 'dpkg.dpf(1)'), ('from pkgk import sib', 'sib.sf(1)')], ['pkgk']),
              crafted([('from klass import HK2', 'HK2().plain(1)'), ('import klass', 'klass.kfree(2)')], ['klass']),
              crafted([('from helper import hf as h2, hg', 'h2(1) + hg(2)'), ('from helper import HK', 'HK().hm(1)')], ['PATH:helper.py']),
              crafted([('from pkgk.sub.deep import df', 'df(1)'), ('from pkgk.sub import deep as dp', 'dp.df(2)')], ['pkgk.sub']),
              # the script itself with --prof-imports: everything its import statements bind is profiled, also the names that follow a name
              # bound before in the same statement
              dict(crafted([('import helper', 'helper.hg(1)'), ('import helper, other as oth2', 'oth2.of(1)'), ('from helper import hf', 'hf(2)'),
                            ('from helper import hf, HK as HKx', 'HKx().hm(1)')], ['PATH:prog.py']), prof_imports=True),
              # a plain import of the package before a from-import out of it
              crafted([('import pkgk', 'pkgk.sf(1)'), ('from pkgk import sib', 'sib.sg(2)'), ('from pkgk.sub import deep as dp', 'dp.df(3)')], ['pkgk.sib', 'pkgk.sub.deep']),
              # look-alike selections: a name that is an imported name minus its last character(s) selects nothing
              crafted([('import helper', 'helper.hf(1)'), ('import pkgk', 'pkgk.sf(1)'), ('import other as ot', 'ot.of(1)')], ['helpe', 'pkg', 'othe']),
              crafted([('from pkgk.sub.deep import df', 'df(1)')], ['PATH:pkgk/sub']),
              # the script itself, with definitions nested inside an explicitly decorated function and inside an undecorated one
              crafted([], ['PATH:prog.py'], defs=[('@profile\ndef deco_outer(n):\n    def deco_inner(j):\n        return j + 1\n\n    class Local:\n        def meth(self, a):\n            return a * 2\n'
                        '    return deco_inner(n) + Local().meth(n)\n\n\ndef plain_outer(n):\n    def plain_inner(j):\n        return j - 1\n    return plain_inner(n)\n',
                        'deco_outer(1) + plain_outer(2)')])] + sample
    with cf.ThreadPoolExecutor(max_workers=12) as ex:
        rr = list(ex.map(lambda c: real_run(build, c['files'], c['script'], c['prof_mod'], c.get('prof_imports', False)), sample))
    # the script itself selected by its bare file name, with and without the .py extension (an executable script `tool`): the same functions
    base = crafted([('import helper', 'helper.hf(1)')], ['x'], defs=[('def own_a(n):\n    return n + 1\n\n\nclass Own:\n    def meth(self, a):\n        return a * 2\n', 'own_a(1) + Own().meth(2)')])
    text = base['files']['prog.py']
    spell = []
    for script in ('tool.py', 'tool', './tool'):
        fs = dict(base['files'])
        fs[script.replace('./', '')] = text
        spell.append((script, fs))
    with cf.ThreadPoolExecutor(max_workers=4) as ex:
        sr = list(ex.map(lambda sf: real_run(build, sf[1], sf[0].replace('./', ''), [sf[0]]), spell))
    names = [sorted({k[1] for k in (r['keys'] or []) if k[0] in ('tool', 'tool.py')}) for r in sr]
    if not names[0] or any(n != names[0] for n in names[1:]) or any(r['rc'] != 0 for r in sr):
        ctx.fail('the script selected by its own file name is not profiled the same whatever the name looks like',
                 {'finding_class': None, 'profiled_functions_per_spelling': {sp[0]: n for sp, n in zip(spell, names)}, 'exit_codes': [r['rc'] for r in sr], 'source': text[:1200]})
    for with_dir in (False, True):
        mr = module_run(build, with_dir)
        if mr['rc'] != 0 or mr['profiled'] != ['fib', 'main']:
            ctx.fail('a module run with -m and selected by its dotted name is not profiled',
                     {'finding_class': None, 'command': 'kernprof -l -p report -m report', 'a_directory_report_next_to_report_py': with_dir, 'real': mr, 'expected_profiled': ['fib', 'main']})
    nontrivial = set()
    stats = {'runs': 0, 'F-C09a': 0, 'F-C09b': 0, 'F-C09c': 0, 'star': 0}
    for c, r in zip(sample, rr):
        stats['runs'] += 1
        if r['rc'] != 0 or r['keys'] is None:
            ctx.fail('kernprof failed on a selection', {'finding_class': None, 'prof_mod': c['prof_mod'], 'stderr': r['err'], 'source': c['files']['prog.py']})
            continue
        sel_names = []
        for s in c['prof_mod']:
            for part in (s.split(',') if not s.startswith('PATH:') else [s]):
                if part.startswith('PATH:'):
                    rel = part[5:]
                    sel_names.append({'linked.py': 'linked', 'helper.py': 'helper', 'pkgk': 'pkgk', 'pkgk/sub': 'pkgk.sub', 'prog.py': '__script__'}.get(rel, '__nothing__'))
                else:
                    sel_names.append(part)
        if c.get('prof_imports') and '__script__' in sel_names:
            for st in c['prog']['top_imports']:
                node = ast.parse(st).body[0]
                sel_names += [a.name for a in node.names] if isinstance(node, ast.Import) else [node.module]
        selected_files, should = expectation(c['prog'], c['files'], [s for s in sel_names if not s.startswith('__')])
        got = {(k[0], k[1]) for k in r['keys']}
        script_selected = '__script__' in sel_names
        # soundness: nothing from a file outside the selection
        for (f, fn) in sorted(got):
            if f == 'prog.py':
                if not script_selected and fn not in ('already',):
                    ctx.fail('a function of the script is profiled although the script was not selected', {'finding_class': None, 'prof_mod': c['prof_mod'], 'function': [f, fn]})
                continue
            if c.get('prof_imports') and f.startswith('..'):
                continue          # --prof-imports: the standard-library modules the script imports are profiled too, as asked
            if f not in selected_files:
                cls = 'F-C09a' if (f == 'other.py' and 'mixed' in ' '.join(sel_names)) else None
                if cls:
                    stats['F-C09a'] += 1
                ctx.fail('a function of an unselected module is profiled', {'finding_class': cls, 'prof_mod': c['prof_mod'], 'function': [f, fn],
                                                                            'selected_files': sorted(selected_files), 'source': c['files']['prog.py']})
        # completeness: what the selection reaches through top-level imports
        for (f, fn, why) in should:
            if why == 'star':
                stats['star'] += 1
                continue
            if (f, fn) not in got:
                cls = {'deep': 'F-C09b', 'method-static': 'F-C09c', 'method-class': 'F-C09c', 'method-prop': 'F-C09c'}.get(why)
                if cls:
                    stats[cls] += 1
                ctx.fail('a function reachable through the selection is not profiled', {'finding_class': cls, 'prof_mod': c['prof_mod'], 'function': [f, fn], 'kind': why,
                                                                                        'top_imports': c['prog']['top_imports']})
        if script_selected:
            d = defs_in(c['files']['prog.py'])
            # every definition at any depth (the generated programs execute all their definitions)
            want = set(d['funcs']) | {m for ms in d['classes'].values() for _k, m in ms} | set(d['nested'])
            have = {fn for (f, fn) in got if f == 'prog.py'}
            missing = want - have
            if missing:
                ctx.fail('whole script selected but a definition is not profiled', {'finding_class': None, 'missing': sorted(missing), 'source': c['files']['prog.py']})
        nontrivial.add(json.dumps([c['files']['prog.py'], c['prof_mod']]))
    ctx.coverage.update({
        'evaluations': len(cases) + len(synth) + len(regs) + len(sample), 'distinct_nontrivial': len(nontrivial),
        'rule': 'generated scripts (17 import styles + imports of a module that re-exports a foreign function and of a class with static/class/property methods) x 19 selections '
                '(module, path, package, package path, sub-module, sub-package, function, class, comma-joined, unselected, missing, look-alikes, the script itself); synthetic '
                'matching problems over look-alike components with repeated names and statement indices; synthetic run-time registrations; real kernprof runs on a sample',
        'traces_validated_against_impl': len(cases) + len(synth) + len(regs) - kdiff, 'correspondence_disagreements': kdiff, 'real_run_statistics': stats})
    ctx.coverage['samples'].append({'prof_mod': sample[-1]['prof_mod'], 'top_imports': sample[-1]['prog']['top_imports'], 'profiled': rr[-1]['keys']})
    ctx.assumptions += ['"reachable through the selection" is read as: the functions (and methods) defined in the module / class / function object that a top-level import of the '
                        'script binds, when a selected name is a dotted prefix of the imported name',
                        'star imports of a selected module are not registered (since the repair of F-C08b they no longer crash): counted, not reported',
                        'known findings F-C09a/b/c are classified by the kind of function that is extra / missing']
    return ctx.finish('Lean: matching is sound and component-exact, complete under the stated proviso, registration sound without foreign names; K09 vs the real extractor and '
                      'registration; oracle = keys of real statistics vs definitions under the selection')


def replay(ctx, path):
    data = json.load(open(path))
    print(json.dumps(data.get('witness', data), indent=1)[:4000])
    return 0
