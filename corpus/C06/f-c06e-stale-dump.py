"""kernprof -i: a periodic dump in flight when the program ends writes *after* the final dump: the stats file ends up stale."""
import os, sys, tempfile, threading, time, inspect
sys.argv = ['x']
import kernprof, line_profiler

d = tempfile.mkdtemp()
out = os.path.join(d, 'stats.lprof')
prof = line_profiler.LineProfiler()

@prof
def work(n):
    t = 0
    for i in range(n):
        t += i
    return t

# hold the timer thread inside LineProfiler.dump_stats between get_stats() and the write
src, first = inspect.getsourcelines(line_profiler.LineProfiler.dump_stats)
write_line = first + next(i for i, l in enumerate(src) if 'with open' in l)
reached, release = threading.Event(), threading.Event()
def tracer(frame, event, arg):
    if frame.f_code is line_profiler.LineProfiler.dump_stats.__code__:
        def local(frame, event, arg):
            if event == 'line' and frame.f_lineno == write_line and threading.current_thread() is not threading.main_thread():
                reached.set(); release.wait(10)
            return local
        return local
threading.settrace(tracer)

work(10)                                   # the program, part 1
rt = kernprof.RepeatedTimer(0.05, prof.dump_stats, out)
reached.wait(5)                            # the periodic dump has taken its snapshot (10 iterations) and is about to write
work(1000)                                 # the program, part 2
rt.stop()                                  # kernprof's finally: stop the timer ...
prof.dump_stats(out)                       # ... and write the final statistics
release.set()                              # the dump in flight goes on
time.sleep(0.3)
live = {l: h for (l, h, t) in list(prof.get_stats().timings.values())[0]}
disk = {l: h for (l, h, t) in list(line_profiler.load_stats(out).timings.values())[0]}
print('live', live); print('disk', disk)
sys.exit(0 if live == disk else 1)
