import sys, threading, time
sys.argv = ['x']
import kernprof
dumps = []
gate_reached = threading.Event(); gate_open = threading.Event()
target_line = None
import inspect
src, first = inspect.getsourcelines(kernprof.RepeatedTimer._run)
for i, l in enumerate(src):
    if 'self.start()' in l:
        target_line = first + i
fired = [0]
def tracer(frame, event, arg):
    if frame.f_code is kernprof.RepeatedTimer._run.__code__:
        def local(frame, event, arg):
            if event == 'line' and frame.f_lineno == target_line and not gate_open.is_set():
                gate_reached.set(); gate_open.wait()
            return local
        return local
    return None
threading.settrace(tracer)
rt = kernprof.RepeatedTimer(0.05, lambda f: dumps.append(time.time()), 'out')
gate_reached.wait(5)
rt.stop()           # the program finished exactly now
gate_open.set()
time.sleep(0.5)
n1 = len(dumps)
time.sleep(0.5)
n2 = len(dumps)
alive = [t for t in threading.enumerate() if isinstance(t, threading.Timer)]
print('dumps after stop:', n1, n2, 'live timers:', len(alive))
# cleanup
rt.is_running = True
for _ in range(50):
    rt.stop(); time.sleep(0.02)
    if not [t for t in threading.enumerate() if isinstance(t, threading.Timer)]: break
sys.exit(1 if n2 > n1 else 0)
