#!/bin/bash
# usage: tools/seed_eval.sh <worktree> <name> <check ids...>
# 1. confirms the seeded change (demo fails with it, passes on /repo; pinned tests still pass in the worktree)
# 2. stores it as seeded/<name>/ ; 3. applies it to /repo, runs the given checks (quick), restores /repo ; 4. removes the worktree
WT=$1; NAME=$2; shift 2
OUT=/verif/seeded/$NAME
mkdir -p $OUT
cp $WT/_seeded/patch.diff $WT/_seeded/demo.py $WT/_seeded/meta.json $OUT/ 2>/dev/null
cd $WT
PYTHONPATH=$WT /venv/bin/python _seeded/demo.py > $OUT/demo_with_patch.log 2>&1; A=$?
(cd /tmp && PYTHONPATH=/repo /venv/bin/python $WT/_seeded/demo.py > $OUT/demo_on_repo.log 2>&1); B=$?     # neutral cwd: `python -m …` children must not import the worktree
PYTHONPATH=$WT /venv/bin/python -m pytest -q -p no:cacheprovider --timeout=900 tests 2>&1 | tail -1 > $OUT/tests.log
echo "demo with patch exit=$A ; on /repo exit=$B ; tests: $(cat $OUT/tests.log)"
cd /verif
rm -rf /var/tmp/lpverif/evidence.keep && cp -r /verif/evidence /var/tmp/lpverif/evidence.keep   # evidence of the unchanged tree is what stays committed
git -C /repo apply --whitespace=nowarn $OUT/patch.diff || { echo "PATCH DOES NOT APPLY"; exit 3; }
RES=""
for c in "$@"; do
  ./check $c --tier quick > $OUT/check_$c.log 2>&1; rc=$?
  RES="$RES $c:exit=$rc"
  grep -h "VIOLATION\|KNOWN-FINDING" $OUT/check_$c.log | head -3
done
git -C /repo checkout -- .
rm -rf /verif/evidence && mv /var/tmp/lpverif/evidence.keep /verif/evidence
(cd /verif/tools && python3 -c 'import extract; extract.regenerate()')   # Generated/ back to the unchanged tree 
echo "RESULT $NAME demo_patch=$A demo_repo=$B $RES"
python3 - <<PY
import json
m=json.load(open('$OUT/meta.json'))
m['confirmed']={'demo_exit_with_patch':$A,'demo_exit_on_repo':$B,'tests':open('$OUT/tests.log').read().strip(),'checks_run':'$RES'.split()}
json.dump(m,open('$OUT/meta.json','w'),indent=1)
PY
git -C /repo worktree remove --force $WT 2>/dev/null; rm -rf $WT
