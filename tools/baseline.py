"""Run the repository's pinned test suite and compare with /root/.vp/BASELINE.json (stable_pass)."""
import json, subprocess, sys, tempfile, os, xml.etree.ElementTree as ET
base = json.load(open('/root/.vp/BASELINE.json'))
with tempfile.TemporaryDirectory() as d:
    x = os.path.join(d, 'j.xml')
    env = dict(os.environ); env.pop('PYUTILS_LINE_PROFILER_VERIF', None)
    subprocess.run(['/venv/bin/python', '-m', 'pytest', '-ra', '-q', '-p', 'no:cacheprovider', '--timeout=900',
                    '--continue-on-collection-errors', '--junitxml=' + x], cwd='/repo', capture_output=True, env=env)
    passed = set()
    for tc in ET.parse(x).getroot().iter('testcase'):
        if not any(c.tag in ('failure', 'error', 'skipped') for c in tc):
            passed.add(tc.get('classname') + '::' + tc.get('name'))
missing = [t for t in base['stable_pass'] if t not in passed]
print('passed %d; baseline %d; missing %d' % (len(passed), len(base['stable_pass']), len(missing)))
for m in missing: print('  MISSING', m)
sys.exit(1 if missing else 0)
