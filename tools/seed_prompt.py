import json, glob, os, sys, re
props = {json.loads(l)['id']: json.loads(l) for l in open('/verif/properties.jsonl')}
tmpl = open('/verif/seeded/AGENT_PROMPT_TEMPLATE.md').read()
head = tmpl.split('The property your change must break:')[0]
mid = tmpl.split('---\n\nRequirements')[1].split('\n\nNote: other developers')[0]
tail = tmpl.split('Yours must be DIFFERENT')[1]
def mk(pid, suffix):
    name = pid + suffix
    p = props[pid]
    h = head.replace('C19f', name)
    body = '---\n%s: %s\n\n%s\n\nQuantifier: %s\n' % (pid, p['title'], p['statement'], p['quantifier']['text'])
    m = ('---\n\nRequirements' + mid).replace('C19f', name).replace('"C19"', '"%s"' % pid)
    prev = []
    for d in sorted(glob.glob('/verif/seeded/%s*' % pid)):
        try:
            me = json.load(open(d + '/meta.json'))
            prev.append('- "%s" (files: %s)' % (me.get('summary', '')[:420], ', '.join(me.get('files', []))))
        except Exception:
            pass
    note = '\n\nNote: other developers have already produced these seeded changes for the same property:\n' + '\n'.join(prev) + '\nYours must be DIFFERENT' + tail
    open(__import__('os').environ.get('SEED_PROMPT_DIR', '/tmp/seedprompts') + '/%s.md' % name, 'w').write(h + 'The property your change must break:\n' + body + m + note)
    return name
for a in sys.argv[1:]:
    print(mk(a[:3], a[3:]))
