"""Writes MANIFEST.json from the table below (kept in one place so it is always valid)."""
import json, os
ROOT = os.path.dirname(os.path.dirname(os.path.abspath(__file__)))
TB = ("Trusted: Lean 4.33 kernel with axioms propext/Classical.choice/Quot.sound only (audited each run; no sorry/native_decide/own axioms); "
      "the translator tools/extract.py and the correspondence harness (harness/*.py, lean/Driver.lean); CPython, Cython and the OS are modelled or exercised, not verified. ")

CHECKS = {
 'C01': dict(cat='proof', tech='Lean 4 proof (invariant by induction over arbitrary event lists) + model/implementation correspondence on recorded traces',
   text='Lean theorems over the trace-callback machine (hits_exact, hits_invariant, unexecuted_absent; refinement abs_run from the hash-map machine the driver executes) hold for every event list, any threads, recursion, suspension; the executable model is tied to the real Cython callback + get_stats by K01 on recorded traces of generated programs; an independent oracle (the interpreter\'s own line events) turns any disagreement into a concrete failing program.',
   note=TB + 'Assumes NoCollision of hash(co_code) XOR line (checked on each run\'s concrete hashes) and that the sys.settrace recording predicts the C-level events (checked by K01 itself). A line in flight when the profiler is disabled is dropped by design.', ref='§4, §6 C01'),

 'C02': dict(cat='proof', tech='Lean 4 proof (time invariant by induction over arbitrary event lists; conservation by disjoint slot intervals) + virtual-clock correspondence',
   text='Lean: time_exact (stored ticks of a line = the specification spent: each LINE event is charged from its own second clock read to the first clock read of the next event on the same (thread, bytecode) slot, for every event list and from every state: time_invariant), time_inclusive (under NoReentry that is the same invocation\'s next line/return/yield/raise: callees included, suspension excluded), time_nonneg (monotone clock), time_conserved (one thread: the line times of a function sum to at most the clock span), time_no_disabled (disable clears the slots); reentrancy_witness proves the full-strength inclusive statement false under recursion (known finding F-C02a). K02 builds the tree with its timers.c wrapped by a virtual clock and compares every total_time cell of model and real profiler (one tick per clock read, so misplaced clock reads show); the oracle is an independent per-invocation accounting of the recorded run against a real run with a free clock, plus non-negativity and conservation; a real-clock calibration test checks time*unit = seconds.',
   note=TB + 'Partial: "time multiplied by unit is seconds" and monotonicity of CLOCK_MONOTONIC are runtime facts (calibration test only). NoReentry excludes F-C02a (recursion; classified narrowly: label ran re-entrantly in the recorded run and reported < per-invocation ticks while model = real). NoCollision as in C01.', ref='§6 C02'),
 'C03': dict(cat='proof', tech='Lean 4 proof (bisimulation of the generator wrapper over all bodies and send/throw/close histories; structural induction over descriptor towers) + correspondence on real objects',
   text='Lean: wrapGenerator_bisim / wrapAsyncGen_bisim (for every generator body and every sequence of next/send/throw/close the wrapper object yields, accepts, raises, closes and returns exactly like the wrapped one; the generator-object protocol follows PEP 342/479 with generator / coroutine / async-generator end-of-life flavours), wrapCoroutine_transparent_partial (await-delegation, excluding what await itself changes; delegate_differs_on_explicit_genExit shows the excluded point is real), wrap_step_brackets, pinned_wrapper_not_transparent (witness for F-C03a/b, fixed in c4c5918), wrapCallable_transparent / wrapCallable_shape / kind_preserved (towers of classmethod, staticmethod, bound method, partial, partialmethod, property with any accessors, cached_property, callable instances, pre-wrapped layers, to any depth: same underlying functions run with the same arguments in the same order and the same failures; only function wrappers were added), register_inert, enable_never_raises (F-C03c fixed in d03f227), dispatch_order / impl_table over tables regenerated from profiler_mixin.py. K03: scripted real generators, coroutines and async generators (with and without awaits inside a step) and real towers, decorated by LineProfiler and by ContextualProfile, against the model; the oracle compares the decorated with the undecorated real object (results, exceptions, side-effect order, name/doc/signature/kind) and runs seven two-profiler scenarios.',
   note=TB + 'CPython\'s generator, await and descriptor semantics are modelled, not verified. Known finding F-C03e: a ContextualProfile-decorated call inside an enabled LineProfiler fails inside cProfile (3.12 tool-id exclusivity). F-C03d (argument-binding errors of a wrapped generator function surface at the first next) is outside the harness\' argument-free scripts and recorded in DESIGN.md.', ref='§6 C03'),
 'C16': dict(cat='proof', tech='Lean 4 proof (structural induction over towers of callables: registration, bracket depth, idempotence) + correspondence on real towers',
   text='Lean: underlying_registered (add_callable registers exactly the leaf functions of any tower over plain functions), runs_under_profiler (using the decorated object runs every underlying function with the bracket open) and every_path_wrapped_once (exactly one layer when none was there), wrap_idempotent and redecorate_registers_nothing (decorating again gives the same tower and registers nothing), underlying_groups over the table regenerated from line_profiler.py. K16 builds real towers (all property shapes with gaps, every kind x plain/generator/coroutine/async-generator function, callable instances, random towers up to depth 4 with pre-wrapped layers), decorates them with a real LineProfiler, compares the rebuilt object, the registered functions and the events of each access with the model; the oracle reads the statistics: hits on each underlying function equal its executions through the decorated and the twice-decorated object.',
   note=TB + 'Exact counting while enabled is C01; descriptor semantics are modelled for sensible compositions (a callable chain under at most one descriptor).', ref='§6 C16'),
 'C05': dict(cat='proof', tech='Lean 4 proof (invariant by induction over arbitrary by-count histories from arbitrary threads) + correspondence on the real profilers',
   text='Lean theorems over the transcribed enable_by_count/disable_by_count: tracing_iff_positive, count_clipped (entries minus exits clipped at 0, thread-local), call_restores (every well-bracketed nest leaves count, tracing and tool id as found), enable_ok (never raises). K05 observes (enable_count, trace slot, sys.monitoring tool id) on the real LineProfiler and ContextualProfile after every operation and inside decorated bodies for all short and many random histories from 1-3 threads.',
   note=TB + 'Thread operations are serialised by the harness; the wrappers\' bracket structure (enable; try; finally disable) is what the harness feeds the model, so a wrapper that stops bracketing shows as a K05/oracle disagreement. Direct enable()/disable() excluded as in the property.', ref='§6 C05'),
 'C12': dict(cat='proof', tech='Lean 4 proof (monotonicity by induction over event lists) + correspondence over histories with the virtual clock',
   text='Lean: every stored hit counter only grows under any event list (hits_monotone); the model of get_stats is a pure function of the state. K12 drives the real profiler (virtual clock) and the model through random histories of add/decorate (repeated), enable/disable windows, calls and snapshots and compares every snapshot; the oracle checks that nothing recorded disappears or decreases between real snapshots, that removing intermediate snapshots changes nothing, and that entries are sorted, unique, inside the function span, hits>=1, time>=0.',
   note=TB + 'Time is made comparable by wrapping timers.c with a virtual clock in the scratch build only. F-C12a (get_stats overwrote same-label code objects) was found by this check and fixed in /repo (abc378f).', ref='§6 C12'),

 'C04': dict(cat='proof', tech='Lean 4 proof (simulation: what is stored for a block depends only on that block\'s events) + correspondence with byte-identical twins',
   text='Lean: unregistered_inert, other_block_inert, attribution_exact (for every event list the hits and time stored for a bytecode value are those produced by the sub-list of its own events), twin_gets_fresh_block; alias_witness proves that identification by bytecode value cannot separate an unregistered byte-identical function on the same line numbers (known finding F-C04a). K04 compares model and real profiler on generated programs with 1-3 byte-identical copies (same file, other files at identical or overlapping line numbers), all registration patterns and re-registrations; the oracle counts each code object\'s own line events.',
   note=TB + 'Partial: NoCollision (hash(co_code) XOR line injective) is an assumption about SipHash, checked per run; NoAlias is false on the real code (F-C04a, known finding, classified narrowly: every cell between own and own+aliased events). A model-predicted clash of padded bytecodes (needs >= 7 registrations of >= 5 byte-identical functions) would be reported as F-C04b.', ref='§6 C04'),
 'C13': dict(cat='proof', tech='Lean 4 proof (all interleavings, inductive Interleave relation) + exhaustive enumeration of task interleavings on the real code + sampled OS-thread schedules',
   text='Lean: for any interleaving of per-thread/per-task event lists the delivered LINE events are the same multiset (opened_interleave), hence quiescent reports equal the sum of what each task executed (interleave_exact), interleaving_independent; a suspension empties the slot. K13 enumerates every interleaving of 2-3 step-wise driven generators/coroutines/async generators of the same registered code (window and per-step decorator windows) on the real profiler, compares with the model and with the sum of solo runs; free-running OS threads (2-8, silent ones included, tiny switch intervals) are compared with the sum of deterministic per-thread counts, counts back to zero, no crash.',
   note=TB + 'OS thread schedules can only be sampled; a data race inside the C++ maps is outside the model (the callback never releases the GIL: recorded assumption).', ref='§6 C13'),

 'C14': dict(cat='proof', tech='Lean 4 proof over all environments/histories on methods transliterated from the tree (bridge emitted = model) + correspondence on real GlobalProfiler objects and real interpreter exits',
   text='Lean: requested_iff (fresh profile(f) is f, creates no profiler and registers nothing with atexit iff LINE_PROFILE lower-cases into the five falsy strings (unset = empty) and neither --line-profile nor --line_profile is in argv; the property\'s literal lists are in the statement, the code\'s tables are regenerated), requested_active, enable_then_active / disable_then_inert from every state, single_profiler + decorate_result (every history of enable/disable/decorate creates at most one LineProfiler, registers show with atexit exactly as often, every decoration returns f or wraps with that one profiler, never fails), kernprof_handover, show_writes_exactly + show_keys_once (outputs = switched-on subset, each once, named from the prefix). The five GlobalProfiler methods and the tables are re-emitted from explicit_profiler.py on every run; Bridge/Explicit.lean proves emitted = model. K14: 44 LINE_PROFILE spellings x 11 argv shapes, all histories up to length 3-4 and random ones with kernprof\'s hook on real GlobalProfiler objects vs the model; show() under all 16 write_config subsets; real interpreter exits (inert spellings, flags, in-code enable with prefix, exit by exception / sys.exit, config subsets).',
   note=TB + 'str.lower vs ASCII lower-casing is probed over all code points each run; atexit semantics and file I/O are exercised by subprocess cases, not modelled. The translator matches the library expressions of the methods by exact source text.', ref='§6 C14'),
 'C15': dict(cat='proof', tech='Lean 4 proof over all argument lists and option tables + translator bridge (emitted pre_parse = model) + correspondence on the real entry point',
   text='Lean: module_mode, script_plain, script_shielded, options_only_from_prefix hold for every option table, every decodable option prefix and every list of program arguments (decode_extend: option decoding stops at the first positional and never looks further). The translator re-emits pre_parse_single_arg_directive from kernprof.py on every run and the bridge theorem gen_eq_model proves the emitted code equal to the model for all argument lists; the option table is regenerated from the add_argument calls. K15 runs the real kernprof.main in-process on thousands of token lists (module / shielded script / plain script shapes after 20 option prefixes) and compares argv, output file name and type, and viewing with the model and with the property directly.',
   note=TB + 'argparse is modelled only on kernprof\'s option grammar (exact names, --long=value, separate values); abbreviations and clustered short flags are outside the model. -i prefixes are exercised elsewhere (timer threads).', ref='§6 C15'),
 'C17': dict(cat='proof', tech='Lean 4 proof over all names/levels/targets + translator bridge + exhaustive small-scope correspondence against importlib',
   text='Lean: resolve_eq_python — for every dotted module name (ending in a module, __init__ or __main__ component), every level valid at that position and every target, the implementation\'s split/slice/append equals importlib._bootstrap._resolve_name applied to the file\'s __package__; resolve_shape. The translator re-emits get_module_from_importfrom from run_module.py each run; bridge rel_gen_eq_model. K17 checks every (depth<=5/7, file kind, level, target) against the real function, importlib.util.resolve_name and the model, and rewrites real files (module, __init__, __main__ at every depth) with AstTreeModuleProfiler, comparing every ImportFrom (module, level, names, aliases) with Python\'s resolution.',
   note=TB + 'Theorem is on component lists; the string glue (split/join) and the modpath_to_modname call that names the file are exercised by K17.', ref='§6 C17'),
}
NA = {}

def main():
    props = [json.loads(l)['id'] for l in open(os.path.join(ROOT, 'properties.jsonl'))]
    checks = []
    for pid in props:
        if pid not in CHECKS:
            continue
        c = CHECKS[pid]
        checks.append({
            'property_id': pid,
            'quick_cmd': './check %s --tier quick' % pid,
            'thorough_cmd': './check %s --tier thorough' % pid,
            'evidence_file': 'evidence/%s.json' % pid,
            'replay_cmd_template': './check %s --replay {path}' % pid,
            'engine': 'lean4+correspondence',
            'level_claimed': {'category': c['cat'], 'text': c['text'], 'design_ref': c['ref']},
            'level_note': c['note'],
            'technique': c['tech'],
        })
    na = [{'property_id': p, 'reason': NA.get(p, 'check not built yet in this round (model and theorems planned in DESIGN.md §6); not claimed')}
          for p in props if p not in CHECKS]
    m = {
        'version': 1,
        'setup_cmd': 'cd lean && lake build LPVerif && cd .. && /venv/bin/python tools/warm.py',
        'hooks': {
            'guard': 'PYUTILS_LINE_PROFILER_VERIF',
            'enable': 'no source hooks are needed: every check copies the tree into scratch (/var/tmp/lpverif), cythonizes and compiles it there, wrapping timers.c by tools/vclock_timers.c (virtual clock) in the scratch copy only; the guard variable is set in the environment of every real-code run but nothing in /repo reads it',
            'baseline_off_cmd': 'cd /repo && /venv/bin/python -m pytest -ra -q -p no:cacheprovider --timeout=900 --continue-on-collection-errors',
            'source_commits': [],
            'add_only': True,
        },
        'engines': [{'name': 'lean4+correspondence', 'path': 'lean/', 'serves_properties': sorted(CHECKS),
                     'kind_free_text': 'Lean 4 models + theorems (lake project lean/), translator tools/extract.py, correspondence harness harness/*.py driving the real code built from /repo and lean/Driver.lean'}],
        'checks': checks,
        'notes': 'See DESIGN.md. ./check <id> --tier quick|thorough [--replay file]. known_findings.json lists recorded defects and fixes.',
        'not_applicable': na,
    }
    with open(os.path.join(ROOT, 'MANIFEST.json'), 'w') as fh:
        json.dump(m, fh, indent=1)

if __name__ == '__main__':
    main()
