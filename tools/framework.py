"""Check context: Lean obligations + axiom audit, correspondence bookkeeping, verdict, evidence."""
import json
import os
import re
import sys
import time
import traceback

from common import (ROOT, LEAN_DIR, SplitMix64, seed_from_env, file_lock, run_cmd, build_repo, BuildError)

ALLOWED_AXIOMS = {'propext', 'Classical.choice', 'Quot.sound'}
FORBIDDEN = re.compile(r'\b(sorry|admit|native_decide|bv_decide|implemented_by|unsafe)\b|^\s*axiom\s|maxHeartbeats\s+0')

TRUSTED_BASE = [
    'Lean 4.33.0 kernel (lake build); axioms allowed: propext, Classical.choice, Quot.sound (audited with #print axioms on every run)',
    'tools/extract.py (translator: regenerates lean/LPVerif/Generated from the tree) where used',
    'harness + Driver.lean line protocol + canonicalisers (correspondence check)',
    'CPython 3.12 semantics, Cython translation of the .pyx, g++ (modelled / exercised, not verified)',
]


class Ctx:
    def __init__(self, pid, tier, level):
        self.pid = pid
        self.tier = tier
        self.level = level
        self.seed = seed_from_env()
        self.rng = SplitMix64(self.seed).fork(pid)
        self.t0 = time.time()
        self.violations = []       # (what, replay_path, no_input)
        self.known_hits = []       # (key, what)
        self.coverage = {'samples': [], 'trusted_base': list(TRUSTED_BASE)}
        self.assumptions = []
        self.obligations = []      # (name, ok, detail)
        self.broken = []           # names of proof / correspondence obligations that no longer check
        self.replay_n = 0
        with open(os.path.join(ROOT, 'known_findings.json')) as fh:
            self.known = json.load(fh)['findings']
        self._build = None
        import shutil
        shutil.rmtree(os.path.join(ROOT, 'replays', pid), ignore_errors=True)

    # ------------------------------------------------------------------ logging
    def log(self, *a):
        print('[%s %6.1fs]' % (self.pid, time.time() - self.t0), *a, flush=True)

    @property
    def quick(self):
        return self.tier == 'quick'

    def build(self):
        if self._build is None:
            self._build = build_repo(log=self.log)
        return self._build

    # ------------------------------------------------------------------ Lean
    def lean_build(self, modules, drivers=('Prof',)):
        """`lake build` the given modules (after the translator has refreshed Generated/).
        Returns {module: (ok, message)}."""
        res = {}
        with file_lock('lake'):
            from extract import regenerate
            changed = regenerate(self.log)
            if changed:
                self.log('Generated/ changed:', ', '.join(changed))
            for m in modules:
                rc, out, err = run_cmd(['lake', 'build', m], cwd=LEAN_DIR, timeout=3000)
                res[m] = (rc == 0, (out + err)[-6000:])
            # the drivers' imports must be built too
            ok, msg = True, ''
            for d in tuple(drivers) + ('Loop',):
                rc, out, err = run_cmd(['lake', 'build', 'LPVerif.Driver.' + d], cwd=LEAN_DIR, timeout=3000)
                ok = ok and rc == 0
                msg += (out + err)[-3000:] if rc else ''
            res['drivers'] = (ok, msg)
            # native builds of the drivers (none imports Mathlib); optional: lean_driver falls back to the interpreter when one is missing or stale
            if ok:
                for d in drivers:
                    rc, _o, _e = run_cmd(['lake', 'build', d.lower() + '_driver'], cwd=LEAN_DIR, timeout=3000)
                    exe = os.path.join(LEAN_DIR, '.lake', 'build', 'bin', d.lower() + '_driver')
                    if rc == 0 and os.path.exists(exe):
                        # lake (content hashes) says the executable is current: a Generated/ file rewritten with its old content has a newer
                        # time stamp and would make lean_driver (which goes by time stamps) fall back to the slow interpreter
                        os.utime(exe)
        return res

    def theorems_in(self, relpath):
        """(namespace-qualified) theorem names declared in a Props file."""
        src = open(os.path.join(LEAN_DIR, relpath)).read()
        ns = re.search(r'^namespace\s+(\S+)', src, re.M)
        pre = (ns.group(1) + '.') if ns else ''
        return [pre + m for m in re.findall(r'^theorem\s+([^\s:({\[]+)', src, re.M)]

    def audit_sources(self):
        """grep for sorry/admit/native_decide/... outside comments in all of lean/."""
        bad = []
        for dp, dn, fn in os.walk(LEAN_DIR):
            if '.lake' in dp:
                continue
            for f in fn:
                if not f.endswith('.lean'):
                    continue
                p = os.path.join(dp, f)
                src = open(p).read()
                src = re.sub(r'/-.*?-/', lambda m: '\n' * m.group(0).count('\n'), src, flags=re.S)
                for i, line in enumerate(src.splitlines(), 1):
                    line = line.split('--')[0]
                    if FORBIDDEN.search(line):
                        bad.append('%s:%d: %s' % (os.path.relpath(p, LEAN_DIR), i, line.strip()))
        return bad

    def prove(self, module, props_file, extra_modules=(), drivers=('Prof',)):
        """Build the property module, audit its theorems' axioms. Fills self.obligations / self.broken."""
        mods = list(extra_modules) + [module]
        res = self.lean_build(mods, drivers)
        names = self.theorems_in(props_file)
        ok_mod = all(res[m][0] for m in mods)
        driver_ok = res['drivers'][0]
        self.driver_ok = driver_ok
        if not driver_ok:
            self.broken.append(('driver', 'model driver does not build: ' + res['drivers'][1][-1500:]))
        bad_src = self.audit_sources()
        if bad_src:
            self.broken.append(('source-audit', 'forbidden token: ' + '; '.join(bad_src[:5])))
        if not ok_mod:
            msg = '\n'.join(res[m][1] for m in mods if not res[m][0])
            failing = sorted(set(re.findall(r'error: (\S+\.lean:\d+:\d+)', msg)))
            for n in names:
                self.obligations.append((n, False, 'module does not build'))
            self.broken.append((module, 'lake build failed at ' + ', '.join(failing[:8]) + '\n' + msg[-3000:]))
            return False
        # axiom audit
        audit = 'import %s\n' % module + ''.join('#print axioms %s\n' % n for n in names)
        ap = os.path.join(LEAN_DIR, '.lake', 'audit_%s.lean' % self.pid)
        with open(ap, 'w') as fh:
            fh.write(audit)
        rc, out, err = run_cmd(['lake', 'env', 'lean', ap], cwd=LEAN_DIR, timeout=1200)
        os.remove(ap)
        text = out + err
        allok = True
        for n in names:
            m = re.search(r"'%s' depends on axioms: \[(.*?)\]" % re.escape(n), text, re.S)
            m0 = re.search(r"'%s' does not depend on any axioms" % re.escape(n), text)
            if m0:
                self.obligations.append((n, True, 'no axioms'))
            elif m:
                ax = {a.strip() for a in m.group(1).replace('\n', ' ').split(',') if a.strip()}
                extra = ax - ALLOWED_AXIOMS
                self.obligations.append((n, not extra, 'axioms: ' + ', '.join(sorted(ax))))
                if extra:
                    allok = False
                    self.broken.append((n, 'depends on disallowed axioms ' + ', '.join(sorted(extra))))
            else:
                allok = False
                self.obligations.append((n, False, 'not found by #print axioms'))
                self.broken.append((n, 'theorem missing: ' + text[-500:]))
        # thorough tier: re-check the compiled module with the toolchain's independent checker
        if self.tier == 'thorough' and allok:
            rc, out, err = run_cmd(['lake', 'env', 'leanchecker', module], cwd=LEAN_DIR, timeout=3000)
            self.coverage['leanchecker'] = {'module': module, 'exit': rc, 'output_tail': (out + err)[-300:]}
            if rc != 0:
                self.broken.append(('leanchecker', 'independent re-check of %s failed: %s' % (module, (out + err)[-800:])))
                allok = False
        return allok and not bad_src

    # ------------------------------------------------------------------ findings / verdict
    def match_known(self, witness):
        """witness: dict with at least 'finding_class' computed by the property's classifier."""
        for k in self.known:
            if (k['property'] == self.pid or self.pid in k.get('also_affects', [])) and k['status'] == 'known' and k['key'] == witness.get('finding_class'):
                return k
        return None

    def write_replay(self, data):
        d = os.path.join(ROOT, 'replays', self.pid)
        os.makedirs(d, exist_ok=True)
        self.replay_n += 1
        p = os.path.join(d, '%d-%d.json' % (self.seed, self.replay_n))
        with open(p, 'w') as fh:
            json.dump(data, fh, indent=1, default=str)
        return os.path.relpath(p, ROOT)

    def fail(self, what, witness):
        """An input on which the property fails on the real code."""
        k = self.match_known(witness)
        if k is not None:
            if k['key'] not in [x[0] for x in self.known_hits]:
                self.known_hits.append((k['key'], k['what']))
            return False
        if len(self.violations) >= 3:      # enough replays; keep counting
            self.violations.append((what, self.violations[0][1], False))
            return True
        path = self.write_replay({'property': self.pid, 'what': what, 'seed': self.seed, 'witness': witness})
        self.violations.append((what, path, False))
        return True

    def finish(self, explanation):
        # broken proof / correspondence obligations with no failing input found
        if self.broken and not self.violations:
            path = self.write_replay({'property': self.pid, 'seed': self.seed,
                                      'no_failing_input_found': True,
                                      'obligations_that_no_longer_check': [{'name': n, 'detail': d} for n, d in self.broken]})
            self.violations.append(('proof or correspondence obligation no longer checks: ' +
                                    ', '.join(n for n, _ in self.broken), path, True))
        for key, what in self.known_hits:
            print('KNOWN-FINDING: property=%s %s %s' % (self.pid, key, what))
        cov = self.coverage
        cov['obligations'] = len(self.obligations)
        cov['discharged'] = sum(1 for o in self.obligations if o[1])
        cov['theorems'] = [{'name': n, 'ok': ok, 'detail': d} for n, ok, d in self.obligations]
        cov['checker_cmd'] = 'cd lean && lake build && lake env lean <#print axioms audit>   (./check %s --tier %s)' % (self.pid, self.tier)
        cov['explanation'] = explanation
        cov['known_findings_seen'] = [k for k, _ in self.known_hits]
        cov.setdefault('evaluations', 0)
        cov.setdefault('distinct_nontrivial', 0)
        ev = {'property_id': self.pid, 'tier': self.tier, 'seed': self.seed, 'level': self.level,
              'coverage': cov, 'assumptions': self.assumptions,
              'wall_s': round(time.time() - self.t0, 2), 'violations': len(self.violations)}
        os.makedirs(os.path.join(ROOT, 'evidence'), exist_ok=True)
        with open(os.path.join(ROOT, 'evidence', self.pid + '.json'), 'w') as fh:
            json.dump(ev, fh, indent=1, default=str)
        for what, path, noinput in self.violations[:3]:
            self.log('violation:', what[:300])
            print('VIOLATION property=%s replay=%s%s' % (self.pid, path, ' no-failing-input-found' if noinput else ''))
        return 1 if self.violations else 0


def main(argv):
    import argparse
    ap = argparse.ArgumentParser()
    ap.add_argument('pid')
    ap.add_argument('--tier', default=os.environ.get('VERIF_TIER', 'quick'), choices=['quick', 'thorough'])
    ap.add_argument('--replay')
    a = ap.parse_args(argv)
    sys.path.insert(0, os.path.join(ROOT, 'harness'))
    mod = __import__(a.pid.lower())
    ctx = Ctx(a.pid, a.tier, mod.LEVEL)
    try:
        if a.replay:
            return mod.replay(ctx, os.path.join(ROOT, a.replay) if not os.path.isabs(a.replay) else a.replay)
        return mod.run(ctx)
    except BuildError as e:
        # the tree does not compile: not a property verdict
        print('BUILD-ERROR', e)
        return 2
    except Exception:
        traceback.print_exc()
        return 2


if __name__ == '__main__':
    sys.exit(main(sys.argv[1:]))
