#!/bin/bash
# run every registered quick check on the current tree (in parallel, 4 at a time); summary at the end
cd /verif
ids=$(python3 -c "import json;print(' '.join(c['property_id'] for c in json.load(open('MANIFEST.json'))['checks']))")
TIER=${1:-quick}
mkdir -p /var/tmp/lpverif/logs
printf '%s\n' $ids | xargs -P 6 -I{} sh -c "./check {} --tier $TIER > /var/tmp/lpverif/logs/{}.log 2>&1; echo {} exit=\$? \$(grep -c VIOLATION /var/tmp/lpverif/logs/{}.log) violations \$(grep -c KNOWN-FINDING /var/tmp/lpverif/logs/{}.log) known"
