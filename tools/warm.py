"""setup helper: build the scratch copy of the tree once so the first check does not pay for it."""
import os, sys
sys.path.insert(0, os.path.dirname(os.path.abspath(__file__)))
import common
print(common.build_repo(log=print))
