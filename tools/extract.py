"""Translator: regenerates lean/LPVerif/Generated/*.lean from the tree (DESIGN §3.2)."""
import os
from common import LEAN_DIR, REPO

GEN_DIR = os.path.join(LEAN_DIR, 'LPVerif', 'Generated')
GENERATORS = []   # (filename, function returning text)


def regenerate(log=None):
    """Rewrite every generated file whose content changed; returns the list of changed files."""
    changed = []
    os.makedirs(GEN_DIR, exist_ok=True)
    for fname, fn in GENERATORS:
        text = fn()
        p = os.path.join(GEN_DIR, fname)
        old = open(p).read() if os.path.exists(p) else None
        if old != text:
            with open(p, 'w') as fh:
                fh.write(text)
            changed.append(fname)
    return changed
