"""Translator: regenerates lean/LPVerif/Generated/*.lean from the tree (DESIGN §3.2).

It serialises, it does not reason: literal tables are copied, a handful of small functions are
transliterated statement by statement into pure Lean terms over LPVerif.Prelude, control skeletons are
dumped as data.  Anything outside the supported subset becomes `unsupported "<source text>"`, which makes
the bridge lemmas fail (and the check then searches for a failing input).
"""
import ast
import os
import re
import textwrap

from common import LEAN_DIR, REPO

GEN_DIR = os.path.join(LEAN_DIR, 'LPVerif', 'Generated')
IND = '  '


def src_of(rel):
    with open(os.path.join(REPO, rel)) as fh:
        return fh.read()


def find_func(tree, name, cls=None):
    for node in ast.walk(tree):
        if cls and isinstance(node, ast.ClassDef) and node.name == cls:
            for sub in node.body:
                if isinstance(sub, (ast.FunctionDef, ast.AsyncFunctionDef)) and sub.name == name:
                    return sub
        if not cls and isinstance(node, (ast.FunctionDef, ast.AsyncFunctionDef)) and node.name == name:
            return node
    return None


def lean_str(s):
    return '"' + s.replace('\\', '\\\\').replace('"', '\\"').replace('\n', '\\n') + '"'


class Unsupported(Exception):
    pass


class Emitter:
    """Python function (restricted subset) -> pure Lean term in `Except PyErr`, continuation-passing over
    statement lists (early return -> Except.ok, raise -> Except.error, try/index/except ValueError -> match)."""

    def __init__(self, self_name, gen_name, local_types=None, overrides=None, stmt_overrides=None, rec_args=None):
        self.self_name = self_name
        self.gen_name = gen_name
        self.local_types = local_types or {}
        self.overrides = overrides or {}
        self.stmt_overrides = stmt_overrides or {}
        self.rec_args = rec_args

    def expr(self, e):
        txt = ast.unparse(e)
        if txt in self.overrides:
            return self.overrides[txt]
        if isinstance(e, ast.Name):
            return e.id
        if isinstance(e, ast.Constant):
            if e.value is None:
                return 'none'
            if isinstance(e.value, str):
                return lean_str(e.value)
            if isinstance(e.value, bool):
                return 'true' if e.value else 'false'
            if isinstance(e.value, int):
                return str(e.value)
        if isinstance(e, ast.List):
            parts, cur = [], []
            for el in e.elts:
                if isinstance(el, ast.Starred):
                    if cur:
                        parts.append('[' + ', '.join(cur) + ']')
                        cur = []
                    parts.append(self.expr(el.value))
                else:
                    cur.append(self.expr(el))
            if cur or not parts:
                parts.append('[' + ', '.join(cur) + ']')
            return '(' + ' ++ '.join(parts) + ')' if len(parts) > 1 else parts[0]
        if isinstance(e, ast.Tuple):
            return '(' + ', '.join(self.expr(x) for x in e.elts) + ')'
        if isinstance(e, ast.BinOp) and isinstance(e.op, ast.Add):
            l, r = e.left, e.right
            op = '++' if isinstance(r, ast.List) or isinstance(l, ast.List) else '+'
            return '(%s %s %s)' % (self.expr(l), op, self.expr(r))
        if isinstance(e, ast.BinOp) and isinstance(e.op, ast.Sub):
            return '(%s - %s)' % (self.expr(e.left), self.expr(e.right))
        if isinstance(e, ast.Subscript):
            if isinstance(e.slice, ast.Slice):
                if e.slice.step is not None:
                    raise Unsupported(txt)
                up = e.slice.upper
                if e.slice.lower is None and isinstance(up, ast.UnaryOp) and isinstance(up.op, ast.USub):
                    return '(pyDropLastN %s %s)' % (self.expr(e.value), self.expr(up.operand))
                lo = 'none' if e.slice.lower is None else '(some %s)' % self.expr(e.slice.lower)
                hi = 'none' if up is None else '(some %s)' % self.expr(up)
                return '(pySlice %s %s %s)' % (self.expr(e.value), lo, hi)
            return '(pyGet %s %s)' % (self.expr(e.value), self.expr(e.slice))
        if isinstance(e, ast.Call) and isinstance(e.func, ast.Name) and e.func.id == 'list' and len(e.args) == 1:
            return self.expr(e.args[0])
        if isinstance(e, ast.Call) and isinstance(e.func, ast.Name) and e.func.id == 'len' and len(e.args) == 1:
            return '(List.length %s)' % self.expr(e.args[0])
        if isinstance(e, ast.Compare) and len(e.ops) == 1:
            l, r = self.expr(e.left), self.expr(e.comparators[0])
            if isinstance(e.ops[0], (ast.Is, ast.Eq)):
                return '(%s = %s)' % (l, r)
            if isinstance(e.ops[0], (ast.IsNot, ast.NotEq)):
                return '(%s ≠ %s)' % (l, r)
            if isinstance(e.ops[0], ast.Gt):
                return '(%s > %s)' % (l, r)
        if isinstance(e, ast.UnaryOp) and isinstance(e.op, ast.Not):
            return '(pyFalsy %s)' % self.expr(e.operand)
        raise Unsupported(txt)

    @staticmethod
    def is_index_try(s):
        return (isinstance(s, ast.Try) and len(s.body) == 1 and isinstance(s.body[0], ast.Assign)
                and isinstance(s.body[0].value, ast.Call) and isinstance(s.body[0].value.func, ast.Attribute)
                and s.body[0].value.func.attr == 'index' and len(s.handlers) == 1
                and getattr(s.handlers[0].type, 'id', None) == 'ValueError' and not s.finalbody)

    def stmts(self, body, d):
        if not body:
            return IND * d + 'Except.error PyErr.fellOff'
        s, rest = body[0], body[1:]
        pad = IND * d
        txt = ast.unparse(s)
        if txt in self.stmt_overrides:
            ov = self.stmt_overrides[txt]
            if ov.startswith('RETURN '):
                return pad + ov[7:]
            return pad + ov + '\n' + self.stmts(rest, d)
        if isinstance(s, ast.Expr) and isinstance(s.value, ast.Constant):
            return self.stmts(rest, d)      # docstring
        if isinstance(s, ast.Pass):
            return self.stmts(rest, d)
        if isinstance(s, ast.Return):
            return pad + 'Except.ok ' + self.expr(s.value)
        if isinstance(s, ast.Raise) and isinstance(s.exc, ast.Call) and isinstance(s.exc.func, ast.Name):
            return pad + 'Except.error PyErr.' + s.exc.func.id
        if isinstance(s, ast.Assert):
            return (pad + 'if %s then\n' % self.expr(s.test) + self.stmts(rest, d + 1) + '\n' + pad
                    + 'else Except.error PyErr.AssertionError')
        if isinstance(s, ast.Assign) and len(s.targets) == 1:
            t = s.targets[0]
            if isinstance(t, ast.Subscript) and isinstance(t.slice, ast.Slice) and t.slice.lower is None \
                    and t.slice.upper is None:
                t = t.value            # pre[:] = X   ==>  pre := X
            if isinstance(t, ast.Tuple) and isinstance(s.value, ast.Call) and getattr(s.value.func, 'id', None) == self.self_name:
                args = [self.expr(a) for a in s.value.args]
                if self.rec_args:
                    args = args + self.rec_args[len(args):]
                names = ', '.join(x.id for x in t.elts)
                return (pad + 'match %s fuel %s with\n' % (self.gen_name, ' '.join(args)) + pad + '| Except.error e => Except.error e\n'
                        + pad + '| Except.ok (%s) =>\n' % names + self.stmts(rest, d + 1))
            if not isinstance(t, ast.Name):
                raise Unsupported(txt)
            ty = self.local_types.get(t.id)
            ann = ' : %s' % ty if ty else ''
            return pad + 'let %s%s := %s\n' % (t.id, ann, self.expr(s.value)) + self.stmts(rest, d)
        if self.is_index_try(s):
            a = s.body[0]
            v = a.targets[0].id
            seq, x = self.expr(a.value.func.value), self.expr(a.value.args[0])
            return (pad + 'match pyIndex %s %s with\n' % (seq, x) + pad + '| none =>\n'
                    + self.stmts(s.handlers[0].body + rest, d + 1) + '\n'
                    + pad + '| some %s =>\n' % v + self.stmts(s.orelse + rest, d + 1))
        if isinstance(s, ast.If):
            return (pad + 'if %s then\n' % self.expr(s.test) + self.stmts(s.body + rest, d + 1) + '\n' + pad + 'else\n'
                    + self.stmts(s.orelse + rest, d + 1))
        raise Unsupported(txt)


def emit_pre_parse():
    tree = ast.parse(src_of('kernprof.py'))
    fn = find_func(tree, 'pre_parse_single_arg_directive')
    head = ('-- generated from kernprof.py:%s `pre_parse_single_arg_directive` -- do not edit\n' % (fn.lineno if fn else '?')
            + 'def pre_parse_gen : Nat → List String → String → String → Except PyErr (List String × Option String × List String)\n'
            + '  | 0, _, _, _ => Except.error PyErr.fuel\n')
    if fn is None:
        return head + '  | _ + 1, _, _, _ => Except.error PyErr.unsupported  -- function not found\n'
    params = [a.arg for a in fn.args.args]
    if params != ['args', 'flag', 'sep']:
        return head + '  | _ + 1, _, _, _ => Except.error PyErr.unsupported  -- unexpected signature %s\n' % params
    em = Emitter('pre_parse_single_arg_directive', 'pre_parse_gen',
                 local_types={'pre': 'List String', 'post': 'List String'}, rec_args=['', '', 'sep'])
    try:
        body = em.stmts(fn.body, 2)
    except Unsupported as e:
        return head + '  | _ + 1, _, _, _ => Except.error PyErr.unsupported  -- unsupported: %s\n' % str(e).replace('\n', ' ')[:200]
    return head + '  | fuel + 1, %s =>\n' % ', '.join(params) + body + '\n'


def emit_get_module():
    tree = ast.parse(src_of('line_profiler/autoprofile/run_module.py'))
    fn = find_func(tree, 'get_module_from_importfrom')
    head = ('-- generated from line_profiler/autoprofile/run_module.py:%s `get_module_from_importfrom` -- do not edit\n'
            '-- component level: `module.split(\'.\')` is the parameter `module_parts`, `\'.\'.join(x)` is `x`,\n'
            '-- `node.module` (a dotted name or None) is one opaque component\n' % (fn.lineno if fn else '?')
            + 'def get_module_gen (level : Nat) (node_module : Option String) (module_parts : List String) : Except PyErr (List String) :=\n')
    if fn is None or [a.arg for a in fn.args.args] != ['node', 'module']:
        return head + '  Except.error PyErr.unsupported\n'
    em = Emitter('get_module_from_importfrom', 'get_module_gen',
                 overrides={'node.level': 'level', 'node.module': 'node_module.isSome', "module.split('.')": 'module_parts',
                            "'.'.join(chunks)": 'chunks', 'not level': '(level = 0)'},
                 stmt_overrides={'return node.module': 'RETURN Except.ok (Option.toList node_module)',
                                 'chunks.append(node.module)': 'let chunks := chunks ++ Option.toList node_module',
                                 'level = node.level': 'let level := level'})
    try:
        body = em.stmts(fn.body, 1)
    except Unsupported as e:
        return head + '  Except.error PyErr.unsupported  -- unsupported: %s\n' % str(e).replace('\n', ' ')[:200]
    return head + body + '\n'


GEN_HEAD = ('import LPVerif.Prelude\n/-! Transliteration emitted by tools/extract.py from the tree — regenerated on every run. -/\n'
            'namespace LPVerif.Generated\nopen LPVerif.Py\n\n')


def gen_pre_parse():
    return GEN_HEAD + emit_pre_parse() + '\nend LPVerif.Generated\n'


def gen_get_module():
    return GEN_HEAD + emit_get_module() + '\nend LPVerif.Generated\n'


# ----------------------------------------------------------------------------- tables
def kernprof_option_table():
    """(short, long, kind) for every add_argument of kernprof's option loop"""
    tree = ast.parse(src_of('kernprof.py'))
    # the function that builds the parsers: `main`, or `_main` behind main's thin restoring wrapper
    fn = next((f for f in (find_func(tree, '_main'), find_func(tree, 'main'))
               if f is not None and any(isinstance(n, ast.Attribute) and n.attr == 'add_argument' for n in ast.walk(f))), None)
    rows = []
    seen = set()
    for node in ast.walk(fn):
        if isinstance(node, ast.Call) and isinstance(node.func, ast.Attribute) and node.func.attr == 'add_argument':
            names = [a.value for a in node.args if isinstance(a, ast.Constant) and isinstance(a.value, str)]
            if not names or not names[0].startswith('-'):
                continue
            kw = {k.arg: k.value for k in node.keywords}
            action = kw['action'].value if 'action' in kw and isinstance(kw['action'], ast.Constant) else None
            nargs = kw['nargs'].value if 'nargs' in kw and isinstance(kw['nargs'], ast.Constant) else None
            if action == 'store_true':
                kind = 'flag'
            elif action == 'version':
                kind = 'version'
            elif action is None or action == 'append' or action == 'store':
                kind = 'optInt' if nargs == '?' else 'value'
            else:
                kind = 'help'
            short = next((n for n in names if not n.startswith('--')), '')
            long_ = next((n for n in names if n.startswith('--')), '')
            if long_ == '--help':
                kind = 'help'
            if (short, long_) in seen:
                continue
            seen.add((short, long_))
            rows.append((short, long_, kind))
    return rows


def literal_of(rel, name, cls_attr=None):
    tree = ast.parse(src_of(rel))
    for node in ast.walk(tree):
        if isinstance(node, ast.Assign) and len(node.targets) == 1:
            t = node.targets[0]
            if isinstance(t, ast.Name) and t.id == name:
                return ast.literal_eval(node.value)
    return None


def gen_kernprof_options():
    out = ['import LPVerif.Model.Argv', '/-! Literal table copied from the tree by tools/extract.py — regenerated on every run. -/',
           'namespace LPVerif.Generated', 'open LPVerif.Argv', '']
    out.append('/-- kernprof.py: every `parser.add_argument(...)` option -/')
    rows = kernprof_option_table()
    out.append('def kernprofOptions : List OptSpec := [')
    out.append(',\n'.join('  ⟨%s, %s, .%s⟩' % (lean_str(s), lean_str(l), k) for s, l, k in rows))
    out.append(']')
    out.append('')
    out.append('/-- argparse\'s `allow_abbrev` of every parser kernprof creates (`True` is argparse\'s default) -/')
    out.append('def kernprofAllowAbbrev : Bool := %s' % ('true' if kernprof_allow_abbrev() else 'false'))
    out.append('')
    out.append('/-- some parser kernprof creates reads arguments from files (`fromfile_prefix_chars`): program arguments starting with that character would be expanded -/')
    out.append('def kernprofFromfilePrefix : Bool := %s' % ('true' if kernprof_fromfile_prefix() else 'false'))
    out.append('')
    out.append('end LPVerif.Generated')
    return '\n'.join(out) + '\n'


def kernprof_allow_abbrev():
    """True unless every construction of an ArgumentParser in kernprof.py (directly or through functools.partial) passes allow_abbrev=False"""
    tree = ast.parse(src_of('kernprof.py'))
    sites = []
    for node in ast.walk(tree):
        if isinstance(node, ast.Call):
            f = ast.unparse(node.func)
            if f in ('ArgumentParser', 'argparse.ArgumentParser') or (f in ('functools.partial', 'partial') and node.args and ast.unparse(node.args[0]) in ('ArgumentParser', 'argparse.ArgumentParser')):
                sites.append(node)
    if not sites:
        return True
    for node in sites:
        kw = {k.arg: k.value for k in node.keywords}
        v = kw.get('allow_abbrev')
        if not (isinstance(v, ast.Constant) and v.value is False):
            return True
    return False


def kernprof_fromfile_prefix():
    """True when some construction of an ArgumentParser in kernprof.py (directly or through functools.partial) passes a non-None fromfile_prefix_chars"""
    tree = ast.parse(src_of('kernprof.py'))
    for node in ast.walk(tree):
        if isinstance(node, ast.Call):
            f = ast.unparse(node.func)
            if f in ('ArgumentParser', 'argparse.ArgumentParser') or (f in ('functools.partial', 'partial') and node.args and ast.unparse(node.args[0]) in ('ArgumentParser', 'argparse.ArgumentParser')):
                for k in node.keywords:
                    if k.arg == 'fromfile_prefix_chars' and not (isinstance(k.value, ast.Constant) and k.value.value is None):
                        return True
                    if k.arg is None:
                        return True          # **kwargs: cannot tell
    return False


def gen_explicit_tables():
    out = ['/-! Literal tables copied from line_profiler/explicit_profiler.py by tools/extract.py — regenerated on every run. -/',
           'namespace LPVerif.Generated', '',
           '/-- segment of an f-string file name: literal text, `{self.output_prefix}`, `{timestamp}` -/',
           'inductive Seg | lit (s : String) | pfx | ts | other (s : String)', 'deriving DecidableEq, Repr', '']
    falsy = literal_of('line_profiler/explicit_profiler.py', '_FALSY_STRINGS')
    out.append('/-- explicit_profiler.py: `_FALSY_STRINGS` (sorted) -/')
    out.append('def falsyStrings : List String := [%s]' % ', '.join(lean_str(x) for x in sorted(falsy or [])))
    out.append('')
    vals = explicit_init_tables()
    sc = vals.get('setup_config', {})
    out.append('/-- `GlobalProfiler.__init__`: setup_config -/')
    out.append('def environFlags : List String := [%s]' % ', '.join(lean_str(x) for x in sc.get('environ_flags', [])))
    out.append('def cliFlags : List String := [%s]' % ', '.join(lean_str(x) for x in sc.get('cli_flags', [])))
    out.append('def defaultOutputPrefix : String := %s' % lean_str(str(vals.get('output_prefix'))))
    out.append('/-- write_config defaults (key, bool) and show_config defaults (key, int) -/')
    out.append('def writeConfigDefaults : List (String × Bool) := [%s]' % ', '.join(
        '(%s, %s)' % (lean_str(k), 'true' if v else 'false') for k, v in vals.get('write_config', {}).items()))
    out.append('def showConfigDefaults : List (String × Nat) := [%s]' % ', '.join(
        '(%s, %d)' % (lean_str(k), int(v)) for k, v in vals.get('show_config', {}).items()))
    out.append('/-- `GlobalProfiler.show`: (write_config key guarding it, file name written; [] = the report on stdout) in source order -/')
    out.append('def showTable : List (String × List Seg) := [%s]' % ', '.join(
        '(%s, %s)' % (lean_str(k), v) for k, v in explicit_show_table()))
    out.append('')
    out.append('end LPVerif.Generated')
    return '\n'.join(out) + '\n'



# ----------------------------------------------------------------------------- GlobalProfiler (C14)
EXPL = 'line_profiler/explicit_profiler.py'


class SelfEmitter:
    """Methods of GlobalProfiler -> Lean terms over the record `GP` (continuation-passing over statement lists).
    Control flow (if/else, early return, method calls, attribute stores) is translated structurally; the few
    library expressions are matched by their exact source text (changed text => unsupported => the build breaks)."""
    ATTR = {'_profile': 'profile', 'enabled': 'enabled', 'output_prefix': 'output_prefix'}
    EXPR_TEXT = {
        "self.setup_config['environ_flags']": 'environFlags',
        "self.setup_config['cli_flags']": 'cliFlags',
        "any((os.environ.get(f, '').lower() not in _FALSY_STRINGS for f in environ_flags))": 'envRequested env environ_flags falsyStrings',
        "any((f in sys.argv for f in cli_flags))": 'cliRequested env cli_flags',
    }
    COND_TEXT = {
        'self.enabled is None': 'self.enabled = none',
        'not self.enabled': 'self.enabled ≠ some true',
        'self._profile is None': 'self.profile = none',
        'output_prefix is not None': 'output_prefix ≠ none',
        'is_profiling': 'is_profiling = true',
    }
    STMT_TEXT = {
        'atexit.register(self.show)': 'let self := self.atexit_register_show',
        'self._profile = LineProfiler()': 'let self := self.new_LineProfiler',
        'self.enable()': 'let self := gen_enable self none',
        'self.disable()': 'let self := gen_disable self',
        'self._implicit_setup()': 'let self := gen_implicit_setup env self',
        'self.output_prefix = output_prefix': 'let self := { self with output_prefix := output_prefix.getD self.output_prefix }',
        'self.enabled = True': 'let self := { self with enabled := some true }',
        'self.enabled = False': 'let self := { self with enabled := some false }',
        'self.enabled = None': 'let self := { self with enabled := none }',
        'self._profile = profile': 'let self := { self with profile := profile }',
        'self._profile = None': 'let self := { self with profile := none }',
    }
    RET_TEXT = {'return func': '(self, Ret.same)', 'return self._profile(func)': '(self, self.call_profile)'}

    def __init__(self, fallthrough):
        self.fallthrough = fallthrough

    def stmts(self, body, d):
        pad = IND * d
        if not body:
            return pad + self.fallthrough
        s, rest = body[0], body[1:]
        txt = ast.unparse(s)
        if isinstance(s, ast.Expr) and isinstance(s.value, ast.Constant):
            return self.stmts(rest, d)
        if isinstance(s, ast.Pass):
            return self.stmts(rest, d)
        if txt in self.STMT_TEXT:
            return pad + self.STMT_TEXT[txt] + '\n' + self.stmts(rest, d)
        if txt in self.RET_TEXT:
            return pad + self.RET_TEXT[txt]
        if isinstance(s, ast.Assign) and len(s.targets) == 1 and isinstance(s.targets[0], ast.Name):
            v = ast.unparse(s.value)
            if v in self.EXPR_TEXT:
                return pad + 'let %s := %s\n' % (s.targets[0].id, self.EXPR_TEXT[v]) + self.stmts(rest, d)
        if isinstance(s, ast.AugAssign) and isinstance(s.op, ast.BitOr) and isinstance(s.target, ast.Name):
            v = ast.unparse(s.value)
            if v in self.EXPR_TEXT:
                return pad + 'let %s := %s || (%s)\n' % (s.target.id, s.target.id, self.EXPR_TEXT[v]) + self.stmts(rest, d)
        if isinstance(s, ast.If):
            c = ast.unparse(s.test)
            if c in self.COND_TEXT:
                return (pad + 'if %s then\n' % self.COND_TEXT[c] + self.stmts(s.body + rest, d + 1) + '\n' + pad + 'else\n'
                        + self.stmts(s.orelse + rest, d + 1))
        raise Unsupported(txt)


def emit_method(tree, cls, name, sig, params, fallthrough):
    fn = find_func(tree, name, cls)
    head = '-- generated from %s:%s `%s.%s` -- do not edit\n' % (EXPL, fn.lineno if fn else '?', cls, name)
    if fn is None:
        return head + '%s := by exact method_not_found_in_source\n' % sig
    got = [a.arg for a in fn.args.args]
    if got != params:
        return head + '%s := by exact unexpected_signature_%s\n' % (sig, '_'.join(got))
    try:
        body = SelfEmitter(fallthrough).stmts(fn.body, 1)
    except Unsupported as e:
        return head + '-- unsupported construct: %s\n%s := by exact unsupported_construct_in_source\n' % (str(e).replace('\n', ' ')[:300], sig)
    return head + sig + ' :=\n' + body + '\n'


def gen_explicit_methods():
    tree = ast.parse(src_of(EXPL))
    out = ['import LPVerif.Model.Explicit', '/-! Transliteration of the GlobalProfiler methods emitted by tools/extract.py from the tree — regenerated on every run. -/',
           'namespace LPVerif.Generated', 'open LPVerif.Explicit', '']
    out.append(emit_method(tree, 'GlobalProfiler', '_kernprof_overwrite', 'def gen_kernprof_overwrite (self : GP) (profile : Option ProfRef) : GP',
                           ['self', 'profile'], 'self'))
    out.append(emit_method(tree, 'GlobalProfiler', 'disable', 'def gen_disable (self : GP) : GP', ['self'], 'self'))
    out.append(emit_method(tree, 'GlobalProfiler', 'enable', 'def gen_enable (self : GP) (output_prefix : Option String) : GP',
                           ['self', 'output_prefix'], 'self'))
    out.append(emit_method(tree, 'GlobalProfiler', '_implicit_setup', 'def gen_implicit_setup (env : Env) (self : GP) : GP', ['self'], 'self'))
    out.append(emit_method(tree, 'GlobalProfiler', '__call__', 'def gen_call (env : Env) (self : GP) : GP × Ret', ['self', 'func'],
                           'by exact call_falls_off_the_end'))
    out.append('end LPVerif.Generated')
    return '\n'.join(out) + '\n'


def explicit_init_tables():
    tree = ast.parse(src_of(EXPL))
    fn = find_func(tree, '__init__', 'GlobalProfiler')
    vals = {}
    for node in ast.walk(fn):
        if isinstance(node, ast.Assign) and len(node.targets) == 1 and isinstance(node.targets[0], ast.Attribute):
            try:
                vals[node.targets[0].attr] = ast.literal_eval(node.value)
            except Exception:
                pass
    return vals


def explicit_show_table():
    """rows (write_config key, file-name pattern or <stdout>) in source order, from the `if <flag>:` structure of show()"""
    tree = ast.parse(src_of(EXPL))
    fn = find_func(tree, 'show', 'GlobalProfiler')
    var2key = {}
    for node in ast.walk(fn):
        if (isinstance(node, ast.Assign) and len(node.targets) == 1 and isinstance(node.targets[0], ast.Name)
                and isinstance(node.value, ast.Subscript) and ast.unparse(node.value.value) == 'self.write_config'):
            var2key[node.targets[0].id] = ast.literal_eval(node.value.slice)
    rows = []

    def walk(stmts, key):
        for st in stmts:
            if isinstance(st, ast.If):
                k = var2key.get(st.test.id) if isinstance(st.test, ast.Name) else None
                walk(st.body, k if k is not None else key)
                walk(st.orelse, key)
                continue
            if key is None:
                continue
            for node in ast.walk(st):
                if isinstance(node, ast.Call) and ast.unparse(node.func) == 'self._profile.print_stats' \
                        and not any(k.arg == 'stream' for k in node.keywords):
                    rows.append((key, '[]'))
                if isinstance(node, ast.Call) and ast.unparse(node.func) == 'pathlib.Path' and node.args \
                        and isinstance(node.args[0], ast.JoinedStr):
                    segs = []
                    for v in node.args[0].values:
                        if isinstance(v, ast.FormattedValue):
                            t = ast.unparse(v.value)
                            segs.append('.pfx' if t == 'self.output_prefix' else '.ts' if t == 'timestamp' else '.other ' + lean_str(t))
                        else:
                            segs.append('.lit ' + lean_str(v.value))
                    rows.append((key, '[' + ', '.join(segs) + ']'))
    walk(fn.body, None)
    return rows


# ----------------------------------------------------------------------------- wrap_callable tables (C03, C16)
MIXIN = 'line_profiler/profiler_mixin.py'


def wrap_dispatch():
    """[(predicate, method)] of the if/elif chain of wrap_callable, in order; final else as ('else', method)"""
    tree = ast.parse(src_of(MIXIN))
    fn = find_func(tree, 'wrap_callable', 'ByCountProfilerMixin')
    rows = []
    node = next((s for s in fn.body if isinstance(s, ast.If)), None)
    while node is not None:
        pred = ast.unparse(node.test.func) if isinstance(node.test, ast.Call) else ast.unparse(node.test)
        meth = ast.unparse(node.body[0].value.func) if isinstance(node.body[0], ast.Assign) else ast.unparse(node.body[0])
        rows.append((pred, meth.replace('self.', '')))
        if len(node.orelse) == 1 and isinstance(node.orelse[0], ast.If):
            node = node.orelse[0]
        else:
            if node.orelse:
                st = node.orelse[0]
                meth = ast.unparse(st.value.func) if isinstance(st, ast.Assign) else ast.unparse(st)
                rows.append(('else', meth.replace('self.', '')))
            node = None
    return rows


def wrap_impl_table():
    """method -> (impl_attrs, args, kwargs, name_attr) of every `self._wrap_callable_wrapper(func, ...)` call, aliases resolved"""
    tree = ast.parse(src_of(MIXIN))
    cls = next(n for n in ast.walk(tree) if isinstance(n, ast.ClassDef) and n.name == 'ByCountProfilerMixin')
    table = {}
    for st in cls.body:
        if isinstance(st, ast.FunctionDef):
            for node in ast.walk(st):
                if isinstance(node, ast.Call) and ast.unparse(node.func) == 'self._wrap_callable_wrapper':
                    kw = {k.arg: ast.unparse(k.value) for k in node.keywords}
                    table[st.name] = (ast.unparse(node.args[1]), kw.get('args', 'None'), kw.get('kwargs', 'None'), kw.get('name_attr', 'None'))
    rows = []
    for st in cls.body:
        if isinstance(st, ast.Assign) and isinstance(st.value, ast.Name) and st.value.id in table:
            for t in st.targets:
                rows.append((t.id,) + table[st.value.id])
        if isinstance(st, ast.FunctionDef) and st.name in table and st.name.startswith('wrap_'):
            rows.append((st.name,) + table[st.name])
    return sorted(rows)


def underlying_groups():
    tree = ast.parse(src_of('line_profiler/line_profiler.py'))
    fn = find_func(tree, '_get_underlying_functions')
    rows = []
    for st in fn.body:
        if isinstance(st, ast.If):
            t = st.test
            if isinstance(t, ast.Call) and ast.unparse(t.func) == 'any' and isinstance(t.args[0], ast.GeneratorExp):
                checks = [ast.unparse(e) for e in t.args[0].generators[0].iter.elts]
                ret = st.body[0]
                attr = ast.unparse(ret.value.args[0]) if isinstance(ret, ast.Return) and isinstance(ret.value, ast.Call) else '?'
                rows.append((','.join(checks), attr))
            elif isinstance(t, ast.Call) and ast.unparse(t.func) == 'is_property':
                loop = next((x for x in st.body if isinstance(x, ast.For)), None)
                rows.append(('is_property', ast.unparse(loop.iter) if loop else '?'))
            else:
                rows.append((ast.unparse(t), ast.unparse(st.body[0])[:60]))
    return rows


def gen_wrap_tables():
    out = ['/-! Tables copied from profiler_mixin.py / line_profiler.py by tools/extract.py — regenerated on every run. -/',
           'namespace LPVerif.Generated', '']
    out.append('/-- `wrap_callable`: the if/elif chain (predicate, method), in order -/')
    out.append('def wrapDispatch : List (String × String) := [%s]' % ', '.join('(%s, %s)' % (lean_str(a), lean_str(b)) for a, b in wrap_dispatch()))
    out.append('/-- every `_wrap_callable_wrapper` user: (method, impl_attrs, args, kwargs, name_attr) -/')
    out.append('def wrapImplTable : List (String × String × String × String × String) := [%s]' % ', '.join(
        '(' + ', '.join(lean_str(x) for x in row) + ')' for row in wrap_impl_table()))
    out.append('/-- `_get_underlying_functions`: (checks, what is recursed into), in order -/')
    out.append('def underlyingGroups : List (String × String) := [%s]' % ', '.join('(%s, %s)' % (lean_str(a), lean_str(b)) for a, b in underlying_groups()))
    out.append('')
    out.append('end LPVerif.Generated')
    return '\n'.join(out) + '\n'


# ----------------------------------------------------------------------------- control skeletons (C06 C07 C19 C20 C05)
EXC_MAP = {'KeyboardInterrupt': ['.kbInt'], 'SystemExit': ['.sysExit'], 'BaseException': ['.sysExit', '.kbInt', '.special', '.other'],
           'Exception': ['.special', '.other']}
RISKY_KERNPROF = ('execfile(', 'execfile_(', 'run_module(', 'rmod_(', 'autoprofile.run(', 'prof.runctx(', 'find_script(', 'find_module_script(', 'prof.dump_stats(')
RISKY_WRAP = ('func(*args', 'exec(cmd', 'method(input_)', 'await ', 'g.close(', 'g.throw(', 'g.send(', 'g.aclose(', 'g.athrow(', 'g.asend(', 'next(g')      # every call into the wrapped object runs user code


SKEL_ROLES = [
    ('dump', 'prof.dump_stats(options.outfile)'), ('execfile', 'execfile('), ('run_module', 'run_module('), ('autoprofile', 'autoprofile.run('),
    ('runctx', 'prof.runctx('), ('setup_exec', 'execfile(setup_file'), ('make_line_profiler', 'prof = line_profiler.LineProfiler()'),
    ('make_cprofile', 'prof = ContextualProfile()'), ('timer_start', 'rt = RepeatedTimer'), ('timer_stop', 'rt.stop()'),
    ('install', 'install_profiler(prof)'), ('uninstall', 'install_profiler(None)'),
    ('save_global', 'global_profiler_state = (global_profiler._profile, global_profiler.enabled)'),
    ('restore_global', 'global_profiler._profile, global_profiler.enabled = global_profiler_state'),
    ('set_argv', 'sys.argv = '), ('find_script', 'script_file = find_'), ('find_setup', 'setup_file = find_script('), ('restore_contents', 'lst[:] = old'), ('exit_restore_argv', 'exit: _restore_list(argv)'),
    ('exit_restore_path', 'exit: _restore_list(path)'), ('rebind', 'sys.argv, sys.path = (argv, path)'), ('call_main', '_main(args)'),
    ('ap_exec', 'exec(code_obj'), ('ap_save', 'enable_count = prof.enable_count'), ('ap_winddown', 'while: prof.enable_count > enable_count: prof.disable_by_count()'),
    ('en', 'self.enable_by_count()'), ('dis', 'self.disable_by_count()'), ('yield', 'yield'),
    ('if_interval', 'if: options.output_interval'), ('if_builtin', 'if: options.builtin'), ('if_global', 'if: global_profiler'),
    ('kp_builtins_set', "builtins.__dict__['profile'] = prof"), ('builtins_set', "builtins.__dict__['profile'] = profile"), ('builtins_restore', "builtins.__dict__['profile'] = old_profile"),
    ('builtins_del', "del builtins.__dict__['profile']"), ('lprun_run', 'profile.runctx(arg_str'), ('lprun_page', 'page(output)'),
    ('lprun_print_stats', 'profile.print_stats('), ('lprun_dump', 'profile.dump_stats(dump_file)'), ('lprun_write', 'pfile.write(output)'),
    ('lprun_return', 'return_value = profile'),
]


class SkelEmitter:
    NAMES = []        # name table shared by all skeletons of one generated file: leaves and conditions are emitted as indices

    def __init__(self, risky):
        self.risky = risky

    @classmethod
    def intern(cls, name):
        if name not in cls.NAMES:
            cls.NAMES.append(name)
        return '%d' % cls.NAMES.index(name)

    def leaf(self, node, text=None):
        txt = text or ast.unparse(node)
        txt = ' '.join(txt.split())
        if 'yield' in txt.split('(')[0].split() or (isinstance(node, ast.AST) and any(isinstance(n, (ast.Yield, ast.YieldFrom)) for n in ast.walk(node))):
            return '.eff %s true' % self.intern('yield: ' + txt[:80])
        risky = any(r in txt for r in self.risky)
        return '.eff %s %s' % (self.intern(txt[:90]), 'true' if risky else 'false')

    def seq(self, stmts):
        items = [x for x in (self.stmt(s) for s in stmts) if x is not None]
        if not items:
            return '.skip'
        out = items[-1]
        for it in reversed(items[:-1]):
            out = '.seq (%s) (%s)' % (it, out)
        return out

    def exc_names(self, t):
        if t is None:
            return EXC_MAP['BaseException']
        names = [ast.unparse(n) for n in (t.elts if isinstance(t, ast.Tuple) else [t])]
        out = []
        for n in names:
            out += EXC_MAP.get(n, ['.special'])     # a specifically named ordinary exception (StopIteration, AttributeError, ...)
        return sorted(set(out), key=out.index)

    def stmt(self, s):
        if isinstance(s, ast.Expr) and isinstance(s.value, ast.Constant):
            return None
        if isinstance(s, ast.If):
            return '.ite %s (%s) (%s)' % (self.intern('if: ' + ' '.join(ast.unparse(s.test).split())[:80]), self.seq(s.body), self.seq(s.orelse))
        if isinstance(s, ast.Try):
            body = self.seq(s.body + s.orelse) if s.orelse and not s.handlers else self.seq(s.body)
            if s.handlers:
                # handlers are tried in order: nested tryExcept around the same body (each handler takes the classes not taken
                # before); the `else:` block runs after a body that did not raise, outside the reach of the handlers
                seen = []
                for i, h in enumerate(s.handlers):
                    names = [n for n in self.exc_names(h.type) if n not in seen]
                    seen += names
                    orelse = self.seq(s.orelse) if (s.orelse and i == 0) else '.skip'
                    body = '.tryExcept (%s) [%s] (%s) (%s)' % (body, ', '.join(names), self.seq(h.body), orelse)
            if s.finalbody:
                body = '.tryFinally (%s) (%s)' % (body, self.seq(s.finalbody))
            return body
        if isinstance(s, (ast.With, ast.AsyncWith)):
            body = self.seq(s.body)
            for item in reversed(s.items):
                cm = ' '.join(ast.unparse(item.context_expr).split())[:70]
                body = '.seq (.eff %s false) (.tryFinally (%s) (.eff %s false))' % (self.intern('enter: ' + cm), body, self.intern('exit: ' + cm))
            return body
        if isinstance(s, ast.Pass):
            return None
        if isinstance(s, ast.Return):
            if s.value is not None and any(r in ast.unparse(s.value) for r in self.risky):
                return '.seq (%s) (.ret)' % self.leaf(s.value)
            return '.ret'
        if isinstance(s, ast.Raise):
            return '.raise_ .other'
        if isinstance(s, ast.While) and ast.unparse(s.test) == 'True':
            return '.eff %s false' % self.intern('loop')
        if isinstance(s, ast.While) and not any(r in ast.unparse(s) for r in self.risky) and not s.orelse:
            # a loop that runs no user code (e.g. counting the enable count down): one leaf, named after its test and body
            return '.eff %s false' % self.intern(('while: %s: %s' % (ast.unparse(s.test), '; '.join(' '.join(ast.unparse(b).split()) for b in s.body)))[:90])
        if isinstance(s, (ast.Assign, ast.Expr, ast.AugAssign, ast.Import, ast.ImportFrom, ast.Delete, ast.Assert, ast.AnnAssign,
                          ast.FunctionDef, ast.AsyncFunctionDef)):
            if isinstance(s, (ast.FunctionDef, ast.AsyncFunctionDef)):
                return '.eff %s false' % self.intern('def ' + s.name)
            return self.leaf(s)
        raise Unsupported(type(s).__name__ + ': ' + ast.unparse(s)[:60])


def skel_def(name, doc, emitter, stmts):
    try:
        body = emitter.seq(stmts)
    except Unsupported as e:
        return '-- %s\n-- unsupported construct: %s\ndef %s : Skel Nat := by exact unsupported_construct_in_source\n' % (doc, str(e).replace('\n', ' ')[:200], name)
    return '/-- %s -/\ndef %s : Skel Nat :=\n  %s\n' % (doc, name, body)


def inner_def(fn, name):
    return next((n for n in ast.walk(fn) if isinstance(n, (ast.FunctionDef, ast.AsyncFunctionDef)) and n.name == name and n is not fn), None)


def gen_skeletons():
    out = ['import LPVerif.Model.Skel', '/-! Control skeletons dumped from the tree by tools/extract.py — regenerated on every run. -/',
           'namespace LPVerif.Generated', 'open LPVerif.Skel', '']
    SkelEmitter.NAMES = []
    kp = ast.parse(src_of('kernprof.py'))
    ek = SkelEmitter(RISKY_KERNPROF)
    # the function that holds the body of kernprof's entry point (`main`, or `_main` behind a thin wrapper)
    body_fn = find_func(kp, '_main') or find_func(kp, 'main')
    main_fn = find_func(kp, 'main')
    try:
        start = next(i for i, s in enumerate(body_fn.body) if ast.unparse(s).startswith('sys.argv'))
        out.append(skel_def('kernprofBody', 'kernprof.py `%s`, from the statement that sets sys.argv to the end' % body_fn.name, ek, body_fn.body[start:]))
        istart = next(i for i, s in enumerate(body_fn.body) if 'global_profiler' in ast.unparse(s))
        out.append(skel_def('kernprofHead', 'kernprof.py `%s`, from the statement that sets sys.argv up to the installation of the profiler' % body_fn.name, ek, body_fn.body[start:istart]))
        out.append(skel_def('kernprofFromInstall', 'kernprof.py `%s`, from the installation of the profiler into the global @profile to the end' % body_fn.name, ek, body_fn.body[istart:]))
        tstart = next(i for i, s in enumerate(body_fn.body) if 'RepeatedTimer' in ast.unparse(s))
        out.append(skel_def('kernprofTail', 'kernprof.py `%s`, from the first RepeatedTimer statement to the end' % body_fn.name, ek, body_fn.body[tstart:]))
    except StopIteration:
        out.append('def kernprofBody : Skel Nat := by exact anchor_statement_not_found\ndef kernprofTail : Skel Nat := by exact anchor_statement_not_found\n'
                   'def kernprofHead : Skel Nat := by exact anchor_statement_not_found\ndef kernprofFromInstall : Skel Nat := by exact anchor_statement_not_found\n')
    # the wrapper that restores sys.argv / sys.path: decorators of main (pinned tree) or its body (after the fix)
    decos = [ast.unparse(d) for d in main_fn.decorator_list]
    out.append('/-- decorators of kernprof.main -/\ndef kernprofMainDecorators : List String := [%s]\n' % ', '.join(lean_str(d) for d in decos))
    em = SkelEmitter(('_main(',))
    out.append(skel_def('kernprofMain', 'kernprof.py `main` (meaningful when it is a thin wrapper around `_main`)', em,
                        main_fn.body if body_fn is not main_fn else []))
    er = SkelEmitter(())
    out.append(skel_def('restoreList', 'kernprof.py `_restore_list` (the `yield` is where the decorated function runs)', er, find_func(kp, '_restore_list').body))
    # %lprun
    ip = ast.parse(src_of('line_profiler/ipython_extension.py'))
    lprun = find_func(ip, 'lprun')
    ei = SkelEmitter(('profile.runctx(',))
    try:
        start = next(i for i, s in enumerate(lprun.body) if isinstance(s, ast.If) and 'builtins' in ast.unparse(s.test))
        out.append(skel_def('lprunCore', 'ipython_extension.py `lprun`, from the builtins handling to the end', ei, lprun.body[start:]))
    except StopIteration:
        out.append('def lprunCore : Skel Nat := by exact anchor_statement_not_found\n')
    # autoprofile.run: the statement that executes the rewritten script, and what surrounds it
    ap = ast.parse(src_of('line_profiler/autoprofile/autoprofile.py'))
    ea = SkelEmitter(('exec(code_obj', 'profiler.profile()', 'compile(tree_profiled'))
    out.append(skel_def('autoprofileRun', 'autoprofile/autoprofile.py `run`', ea, find_func(ap, 'run').body))
    # by-count brackets of the mixin
    mx = ast.parse(src_of(MIXIN))
    ew = SkelEmitter(RISKY_WRAP)
    for meth in ('runctx', 'runcall', '__enter__', '__exit__'):
        fn = find_func(mx, meth, 'ByCountProfilerMixin')
        out.append(skel_def('mixin_' + meth.strip('_'), 'profiler_mixin.py `%s`' % meth, ew, fn.body))
    for meth in ('wrap_function', 'wrap_coroutine'):
        fn = find_func(mx, meth, 'ByCountProfilerMixin')
        w = inner_def(fn, 'wrapper')
        out.append(skel_def(meth + '_wrapper', 'profiler_mixin.py `%s`: the wrapper function' % meth, ew, w.body))
    for meth in ('wrap_generator', 'wrap_async_generator'):
        fn = find_func(mx, meth, 'ByCountProfilerMixin')
        w = inner_def(fn, 'wrapper')
        loop = next((s for s in w.body if isinstance(s, ast.While)), None)
        out.append(skel_def(meth + '_iteration', 'profiler_mixin.py `%s`: one iteration of the wrapper loop' % meth, ew, loop.body if loop else []))
    out.append('/-! Roles: indices of the statements whose source text starts with the given prefix (computed by the translator, so that the\n'
               '    kernel compares numbers; an empty role means the statement is gone and makes the non-vacuity theorems fail). -/')
    for role, pfx in SKEL_ROLES:
        idl = [i for i, n in enumerate(SkelEmitter.NAMES) if n.startswith(pfx)]
        out.append('/-- statements starting with `%s` -/\ndef role_%s : List Nat := [%s]' % (pfx.replace('`', "'"), role, ', '.join(map(str, idl))))
    out.append('')
    out.append('/-- the name table: leaf `i` of the skeletons above is the statement `skelNames[i]` (conditions are prefixed `if: `) -/')
    out.append('def skelNames : List String := [\n  %s]\n' % ',\n  '.join(lean_str(n) for n in SkelEmitter.NAMES))
    out.append('end LPVerif.Generated')
    return '\n'.join(out) + '\n'


# ----------------------------------------------------------------------------- report tables (C10, C11)
LP = 'line_profiler/line_profiler.py'


def gen_report_tables():
    tree = ast.parse(src_of(LP))
    sf = find_func(tree, 'show_func')
    st = find_func(tree, 'show_text')
    sizes, col_order, header = {}, [], []
    for node in ast.walk(sf):
        if isinstance(node, ast.Assign) and len(node.targets) == 1 and isinstance(node.targets[0], ast.Name):
            nm = node.targets[0].id
            try:
                if nm == 'default_column_sizes':
                    sizes = ast.literal_eval(node.value)
                elif nm == 'col_order':
                    col_order = ast.literal_eval(node.value)
                elif nm == 'header' and isinstance(node.value, ast.Tuple):
                    header = list(ast.literal_eval(node.value))
            except Exception:
                pass
    def fmts(fn):
        out = []
        for node in ast.walk(fn):
            if isinstance(node, ast.BinOp) and isinstance(node.op, ast.Mod) and isinstance(node.left, ast.Constant) and isinstance(node.left.value, str):
                out.append((node.lineno, node.col_offset, node.left.value))
        return [f for _l, _c, f in sorted(out)]
    # the strip conditions of show_text / show_func as source text
    strips = []
    for fn in (sf, st):
        for node in ast.walk(fn):
            if isinstance(node, ast.If) and 'stripzeros' in ast.unparse(node.test):
                strips.append((fn.name, ' '.join(ast.unparse(node.test).split())))
    sort_key = ''
    for node in ast.walk(st):
        if isinstance(node, ast.Call) and ast.unparse(node.func) == 'sorted' and node.keywords:
            sort_key = ' '.join(ast.unparse(node.keywords[0].value).split())
    rows_src = [' '.join(ast.unparse(n).split()) for n in ast.walk(sf)
                if isinstance(n, ast.Assign) and isinstance(n.targets[0], ast.Name) and n.targets[0].id == 'linenos']
    out = ['/-! Tables copied from line_profiler/line_profiler.py (show_func / show_text) by tools/extract.py — regenerated on every run. -/',
           'namespace LPVerif.Generated', '']
    out.append('def reportColumnSizes : List (String × Nat) := [%s]' % ', '.join('(%s, %d)' % (lean_str(k), v) for k, v in sizes.items()))
    out.append('def reportColOrder : List String := [%s]' % ', '.join(lean_str(x) for x in col_order))
    out.append('def reportHeader : List String := [%s]' % ', '.join(lean_str(x) for x in header))
    out.append('/-- `%` format strings of show_func, in source order -/')
    out.append('def showFuncFormats : List String := [%s]' % ', '.join(lean_str(x) for x in fmts(sf)))
    out.append('/-- `%` format strings of show_text, in source order -/')
    out.append('def showTextFormats : List String := [%s]' % ', '.join(lean_str(x) for x in fmts(st)))
    out.append('/-- conditions under which a function is left out with stripzeros: (function, condition) -/')
    out.append('def stripConditions : List (String × String) := [%s]' % ', '.join('(%s, %s)' % (lean_str(a), lean_str(b)) for a, b in strips))
    out.append('def sortKey : String := %s' % lean_str(sort_key))
    out.append('/-- how the rows of a function are numbered -/')
    out.append('def rowNumbering : List String := [%s]' % ', '.join(lean_str(x) for x in rows_src))
    out.append('')
    out.append('end LPVerif.Generated')
    return '\n'.join(out) + '\n'


# ----------------------------------------------------------------------------- output channels (C11)
def call_kwargs(fn, callee):
    """keyword arguments (as source text) of every call of `callee` inside fn, in source order"""
    out = []
    for node in ast.walk(fn):
        if isinstance(node, ast.Call) and ast.unparse(node.func) == callee:
            out.append((node.lineno, [(k.arg or '**', ' '.join(ast.unparse(k.value).split())) for k in node.keywords]
                        + [('#%d' % i, ' '.join(ast.unparse(a).split())) for i, a in enumerate(node.args)]))
    return [kw for _l, kw in sorted(out)]


def gen_channel_tables():
    out = ['/-! How each output channel calls the one renderer (copied from the tree by tools/extract.py — regenerated on every run). -/',
           'namespace LPVerif.Generated', '']
    kp = ast.parse(src_of('kernprof.py'))
    body_fn = find_func(kp, '_main') or find_func(kp, 'main')
    lpt = ast.parse(src_of(LP))
    ex = ast.parse(src_of(EXPL))

    def emit(name, doc, calls):
        out.append('/-- %s -/' % doc)
        out.append('def %s : List (List (String × String)) := [%s]' % (name, ', '.join(
            '[' + ', '.join('(%s, %s)' % (lean_str(a), lean_str(b)) for a, b in kw) + ']' for kw in calls)))
    emit('kernprofViewCalls', 'kernprof --view: the `prof.print_stats(...)` calls', call_kwargs(body_fn, 'prof.print_stats'))
    emit('viewerShowTextCalls', '`python -m line_profiler`: the `show_text(...)` call of main()', call_kwargs(find_func(lpt, 'main'), 'show_text'))
    emit('printStatsShowTextCalls', '`LineProfiler.print_stats`: its `show_text(...)` call', call_kwargs(find_func(lpt, 'print_stats', 'LineProfiler'), 'show_text'))
    emit('explicitPrintStatsCalls', '`GlobalProfiler.show`: the `self._profile.print_stats(...)` calls', call_kwargs(find_func(ex, 'show', 'GlobalProfiler'), 'self._profile.print_stats'))
    emit('dumpCalls', '`LineProfiler.dump_stats`: pickle.dump call', call_kwargs(find_func(lpt, 'dump_stats', 'LineProfiler'), 'pickle.dump'))
    emit('loadCalls', '`load_stats`: pickle.load call', call_kwargs(find_func(lpt, 'load_stats'), 'pickle.load'))
    # explicit overrides: assignments text_kwargs[...] = ...
    sh = find_func(ex, 'show', 'GlobalProfiler')
    ov = []
    for node in ast.walk(sh):
        if isinstance(node, ast.Assign) and isinstance(node.targets[0], ast.Subscript) and ast.unparse(node.targets[0].value) == 'text_kwargs':
            ov.append((ast.literal_eval(node.targets[0].slice), ast.unparse(node.value)))
    def sig_defaults(fn):
        a = fn.args
        names = [x.arg for x in a.args]
        defs = [None] * (len(names) - len(a.defaults)) + [ast.unparse(d) for d in a.defaults]
        return [(n, d) for n, d in zip(names, defs) if d is not None]
    for nm, fn in (('printStatsDefaults', find_func(lpt, 'print_stats', 'LineProfiler')), ('showTextDefaults', find_func(lpt, 'show_text'))):
        out.append('/-- keyword defaults of the signature -/')
        out.append('def %s : List (String × String) := [%s]' % (nm, ', '.join('(%s, %s)' % (lean_str(a), lean_str(b)) for a, b in sig_defaults(fn))))
    # kernprof's cProfile-based profiler: does writing a dump switch it off?  (`Profile.dump_stats` does, through `create_stats()` -> `disable()`)
    cp = next((n for n in kp.body if isinstance(n, ast.ClassDef) and n.name == 'ContextualProfile'), None)
    own = next((n for n in (cp.body if cp else []) if isinstance(n, ast.FunctionDef) and n.name == 'dump_stats'), None)
    text = ' ; '.join(ast.unparse(st) for st in (own.body if own else []) if not (isinstance(st, ast.Expr) and isinstance(st.value, ast.Constant)))      # docstring left out
    off = own is None or 'create_stats' in text or '.disable' in text or 'super()' in text or 'Profile.dump_stats' in text
    out.append('/-- `kernprof.ContextualProfile.dump_stats` goes through `create_stats()` / `disable()` (inherited, or in its own body) -/')
    out.append('def contextualDumpSwitchesOff : Bool := %s' % ('true' if off else 'false'))
    out.append('/-- `GlobalProfiler.show`: overrides applied to the text-file rendering -/')
    out.append('def explicitTextOverrides : List (String × String) := [%s]' % ', '.join('(%s, %s)' % (lean_str(a), lean_str(b)) for a, b in ov))
    out.append('')
    out.append('end LPVerif.Generated')
    return '\n'.join(out) + '\n'



# ----------------------------------------------------------------------------- kernprof.RepeatedTimer -> Model.Timer program
def _self_attr(node, name=None):
    return isinstance(node, ast.Attribute) and isinstance(node.value, ast.Name) and node.value.id == 'self' and (name is None or node.attr == name)


def _timer_conds(test):
    """`not self.is_running [and not self._stopped]` -> list of condition names, or None"""
    parts = test.values if isinstance(test, ast.BoolOp) and isinstance(test.op, ast.And) else [test]
    out = []
    for p in parts:
        if isinstance(p, ast.UnaryOp) and isinstance(p.op, ast.Not) and _self_attr(p.operand, 'is_running'):
            out.append('notRunning')
        elif isinstance(p, ast.UnaryOp) and isinstance(p.op, ast.Not) and _self_attr(p.operand, '_stopped'):
            out.append('notStopped')
        else:
            return None
    return out


def _timer_act(stmt):
    """a simple statement -> act name (with argument), 'call:<method>' for self.<method>(), or None"""
    if isinstance(stmt, ast.Assign) and len(stmt.targets) == 1 and _self_attr(stmt.targets[0]):
        attr, v = stmt.targets[0].attr, stmt.value
        if attr == 'is_running' and isinstance(v, ast.Constant) and isinstance(v.value, bool):
            return 'setRunning %s' % str(v.value).lower()
        if attr == '_stopped' and isinstance(v, ast.Constant) and isinstance(v.value, bool):
            return 'setStopped %s' % str(v.value).lower()
        if attr == '_timer' and isinstance(v, ast.Call) and ast.unparse(v.func) in ('threading.Timer', 'Timer'):
            return 'newTimer'
        return None
    if isinstance(stmt, ast.AugAssign) and _self_attr(stmt.target, 'next_call'):
        return 'nop'
    if isinstance(stmt, ast.Expr) and isinstance(stmt.value, ast.Call):
        f = ast.unparse(stmt.value.func)
        if f == 'self._timer.start':
            return 'startTimer'
        if f == 'self._timer.cancel':
            return 'cancel'
        if f == 'self.dump_func':
            return 'dump'
        if f.startswith('self.') and f.count('.') == 1:
            return 'call:' + f[5:]
    return None


def _timer_instrs(cls, body, depth=0):
    """statement list -> instruction dicts {'kind', 'line', ...}; unknown statements become the act `unknown`"""
    out = []
    for stmt in body:
        if isinstance(stmt, ast.Expr) and isinstance(stmt.value, ast.Constant) and isinstance(stmt.value.value, str):
            continue
        if isinstance(stmt, ast.Return) and stmt.value is None and stmt is body[-1]:
            continue
        a = _timer_act(stmt)
        if a and a.startswith('call:'):
            m = next((f for f in cls.body if isinstance(f, ast.FunctionDef) and f.name == a[5:]), None)
            if m is None or depth > 2:
                out.append({'kind': 'act', 'act': 'unknown', 'line': stmt.lineno, 'src': ast.unparse(stmt)})
            else:
                out.extend(_timer_instrs(cls, m.body, depth + 1))
            continue
        if a:
            out.append({'kind': 'act', 'act': a, 'line': stmt.lineno})
            continue
        if isinstance(stmt, ast.If) and not stmt.orelse and _timer_conds(stmt.test) is not None:
            inner = _timer_instrs(cls, stmt.body, depth)
            out.append({'kind': 'test', 'conds': _timer_conds(stmt.test), 'skip': len(inner), 'line': stmt.lineno})
            out.extend(inner)
            continue
        if isinstance(stmt, ast.With) and len(stmt.items) == 1 and _self_attr(stmt.items[0].context_expr, '_lock') and stmt.items[0].optional_vars is None:
            groups, ok = [], True
            for sub in stmt.body:
                sa = _timer_act(sub)
                if sa and not sa.startswith('call:'):
                    if groups and groups[-1][0] == [] and groups[-1][2]:
                        groups[-1][1].append(sa)
                    else:
                        groups.append([[], [sa], True])
                elif isinstance(sub, ast.If) and not sub.orelse and _timer_conds(sub.test) is not None and \
                        all((_timer_act(x) or 'call:').startswith('call:') is False for x in sub.body):
                    groups.append([_timer_conds(sub.test), [_timer_act(x) for x in sub.body], False])
                else:
                    ok = False
            if ok:
                out.append({'kind': 'atomic', 'groups': [[g[0], g[1]] for g in groups], 'line': stmt.lineno})
                continue
        out.append({'kind': 'act', 'act': 'unknown', 'line': stmt.lineno, 'src': ast.unparse(stmt)[:80]})
    return out


def timer_program():
    """kernprof.RepeatedTimer as instruction lists (also used by the correspondence harness for its gate lines)"""
    tree = ast.parse(src_of('kernprof.py'))
    cls = next(n for n in ast.walk(tree) if isinstance(n, ast.ClassDef) and n.name == 'RepeatedTimer')
    meth = {f.name: f for f in cls.body if isinstance(f, ast.FunctionDef)}
    init = {'running': None, 'stopped': False, 'timer_none': False}
    body = list(meth['__init__'].body)
    k = 0
    while k < len(body):
        st = body[k]
        if isinstance(st, ast.Assign) and len(st.targets) == 1 and _self_attr(st.targets[0]) and not any(isinstance(x, ast.Call) and ast.unparse(x.func).startswith('self.') for x in ast.walk(st.value)):
            attr, v = st.targets[0].attr, st.value
            if attr == 'is_running' and isinstance(v, ast.Constant):
                init['running'] = v.value
            elif attr == '_stopped' and isinstance(v, ast.Constant):
                init['stopped'] = v.value
            elif attr == '_timer' and isinstance(v, ast.Constant) and v.value is None:
                init['timer_none'] = True
            elif attr == '_timer':
                break
            k += 1
        else:
            break
    ctor = _timer_instrs(cls, body[k:])
    if init['running'] is not False or init['stopped'] is not False or not init['timer_none']:
        ctor.insert(0, {'kind': 'act', 'act': 'unknown', 'line': meth['__init__'].lineno, 'src': 'unexpected initial field values %r' % init})
    return {'ctor': ctor, 'run': _timer_instrs(cls, meth['_run'].body), 'stop': _timer_instrs(cls, meth['stop'].body), 'init': init}


def _lean_instr(i):
    def act(a):
        return '.' + a if ' ' not in a else '.%s %s' % tuple(a.split())
    if i['kind'] == 'act':
        return '.act (%s)' % act(i['act'])
    if i['kind'] == 'test':
        return '.test [%s] %d' % (', '.join('.' + c for c in i['conds']), i['skip'])
    return '.atomic [%s]' % ', '.join('([%s], [%s])' % (', '.join('.' + c for c in g[0]), ', '.join(act(a) for a in g[1])) for g in i['groups'])


def gen_timer_prog():
    p = timer_program()
    out = ['import LPVerif.Model.Timer', '/-! `kernprof.RepeatedTimer` as a `Timer.Prog`, emitted by tools/extract.py from the tree — regenerated on every run. -/',
           'namespace LPVerif.Generated', 'open LPVerif.Timer', '']
    out.append('def repeatedTimer : Prog :=')
    for j, name in enumerate(('ctor', 'run', 'stop')):
        out.append('  %s %s := [%s]%s' % ('{' if j == 0 else ' ', name, ',\n      '.join(_lean_instr(i) for i in p[name]), ' }' if j == 2 else ','))
    out.append('')
    out.append('/-- source lines of the instructions (for the reader; the correspondence harness gates the real threads there) -/')
    out.append('def repeatedTimerLines : List (List Nat) := [%s]' % ', '.join('[%s]' % ', '.join(str(i['line']) for i in p[name]) for name in ('ctor', 'run', 'stop')))
    out.append('')
    out.append('end LPVerif.Generated')
    return '\n'.join(out) + '\n'


# ----------------------------------------------------------------------------- the flow of the command line through kernprof.main / _main (C15)
ARGFLOW_NAMES = {'args', 'module', 'post_args', 'options'}
ARGFLOW_ATTRS = {('options', 'args'), ('options', 'script'), ('options', 'outfile'), ('sys', 'argv')}
ARGFLOW_MUTATORS = {'append', 'extend', 'insert', 'pop', 'remove', 'clear', 'sort', 'reverse', '__setitem__', '__delitem__', '__iadd__'}
ARGFLOW_FORMS = {
    'if args is None: args = sys.argv[1:]': 'defaultArgs',
    "args, module, post_args = pre_parse_single_arg_directive(args, '-m')": 'preParse',
    'options = real_parser.parse_args(args)': 'parseArgs',
    'options.args += post_args': 'appendPost',
    'if module is not None: options.script = module': 'scriptFromModule',
    "if not options.outfile: extension = 'lprof' if options.line_by_line else 'prof' options.outfile = '%s.%s' % (os.path.basename(options.script), extension)": 'defaultOutfile',
    'sys.argv = [options.script] + options.args': 'setArgv',
}


def _is_tracked(node):
    if isinstance(node, ast.Name):
        return node.id in ARGFLOW_NAMES
    if isinstance(node, ast.Attribute) and isinstance(node.value, ast.Name):
        return (node.value.id, node.attr) in ARGFLOW_ATTRS
    if isinstance(node, (ast.Subscript, ast.Starred)):
        return _is_tracked(node.value)
    if isinstance(node, (ast.Tuple, ast.List)):
        return any(_is_tracked(e) for e in node.elts)
    return False


def _writes_tracked(stmt):
    """does the statement (anywhere inside it, nested function bodies excluded) bind, rebind, delete or mutate a tracked name?"""
    todo = [stmt]
    while todo:
        n = todo.pop()
        if isinstance(n, (ast.FunctionDef, ast.AsyncFunctionDef, ast.Lambda, ast.ClassDef)) and n is not stmt:
            continue
        if isinstance(n, ast.Assign) and any(_is_tracked(t) for t in n.targets):
            return True
        if isinstance(n, (ast.AugAssign, ast.AnnAssign)) and _is_tracked(n.target):
            return True
        if isinstance(n, ast.Delete) and any(_is_tracked(t) for t in n.targets):
            return True
        if isinstance(n, ast.NamedExpr) and _is_tracked(n.target):
            return True
        if isinstance(n, (ast.For, ast.AsyncFor)) and _is_tracked(n.target):
            return True
        if isinstance(n, (ast.With, ast.AsyncWith)) and any(i.optional_vars is not None and _is_tracked(i.optional_vars) for i in n.items):
            return True
        if isinstance(n, ast.Call) and isinstance(n.func, ast.Attribute) and n.func.attr in ARGFLOW_MUTATORS and _is_tracked(n.func.value):
            return True
        if isinstance(n, ast.Call) and ast.unparse(n.func) == 'setattr' and n.args and _is_tracked(n.args[0]):
            return True
        todo.extend(ast.iter_child_nodes(n))
    return False


def _norm(stmt):
    return ' '.join(ast.unparse(stmt).split())


def _parser_positionals_ok(fn):
    """the `script` positional exists exactly when `module is None` (or on the help parser), and `args` takes the remainder"""
    text = _norm(fn)
    a = "if parser is help_parser or module is None: parser.add_argument('script'," in text
    b = "parser.add_argument('args', nargs='...'," in text
    c = text.count("add_argument('script'") == 1 and text.count("add_argument('args'") == 1
    d = ('if module is None: real_parser, = parsers = [create_parser()] help_parser = None else: real_parser = create_parser(add_help=False)' in text
         and 'help_parser = create_parser() parsers = [real_parser, help_parser] for parser in parsers:' in text)
    return a and b and c and d


def arg_flow():
    kp = ast.parse(src_of('kernprof.py'))
    main_fn, body_fn = find_func(kp, 'main'), find_func(kp, '_main') or find_func(kp, 'main')
    out = []

    def walk(stmts, in_main):
        """-> True when the walk is over (after `sys.argv = …`)"""
        for st in stmts:
            text = _norm(st)
            if in_main and '_main(' in text and not _writes_tracked(st) and isinstance(st, ast.Expr):
                out.append(('callMain', st.lineno))
                continue
            if isinstance(st, (ast.FunctionDef, ast.AsyncFunctionDef, ast.ClassDef)):
                continue
            if text in ARGFLOW_FORMS:
                name = ARGFLOW_FORMS[text]
                if name == 'parseArgs' and not _parser_positionals_ok(body_fn):
                    name = 'unknown'
                out.append((name, st.lineno))
                continue
            if not _writes_tracked(st) and not (in_main and '_main(' in text):
                continue
            # a compound statement that only wraps known forms (`with …:`, `try:`): look inside; anything else has no known meaning
            if isinstance(st, (ast.With, ast.AsyncWith)) and not any(i.optional_vars is not None and _is_tracked(i.optional_vars) for i in st.items):
                walk(st.body, in_main)
            elif isinstance(st, ast.Try):
                walk(st.body, in_main)
                for h in st.handlers:
                    walk(h.body, in_main)
                walk(st.orelse, in_main)
                walk(st.finalbody, in_main)
            else:
                out.append(('unknown', st.lineno))

    if body_fn is not main_fn:
        walk(main_fn.body, True)
    walk(body_fn.body, False)
    # `sys.argv, sys.path = argv, path` in main's `finally:` restores the caller's list after the run: not part of the flow to the program
    flow = []
    for name, line in out:
        flow.append((name, line))
    return flow


def gen_arg_flow():
    flow = arg_flow()
    # the restoration in `main` (`sys.argv, sys.path = (argv, path)`) comes after `_main` returned: it is C19's subject; drop that one statement
    kp_lines = src_of('kernprof.py').split('\n')
    kept = []
    for name, line in flow:
        if name == 'unknown' and ' '.join(kp_lines[line - 1].split()) == 'sys.argv, sys.path = argv, path':
            continue
        kept.append((name, line))
    out = ['import LPVerif.Model.ArgFlow', '/-! The statements of `kernprof.main` / `kernprof._main` that write the command line\'s names, in source order — emitted by',
           '    tools/extract.py from the tree, regenerated on every run. -/', 'namespace LPVerif.Generated', 'open LPVerif.ArgFlow', '']
    out.append('def kernprofArgFlow : List Stmt := [%s]' % ', '.join('.' + n for n, _ in kept))
    out.append('')
    out.append('/-- source lines of the statements (for the reader) -/')
    out.append('def kernprofArgFlowLines : List Nat := [%s]' % ', '.join(str(l) for _, l in kept))
    out.append('')
    out.append('end LPVerif.Generated')
    return '\n'.join(out) + '\n'


# ----------------------------------------------------------------------------- where user code is compiled, and under which __future__ flags (C07, C08, C20)
def compile_sites():
    """every `compile(...)`, and every `exec(...)` / `eval(...)` of something that is not the result of a `compile(...)` call, in kernprof.py and
    the package: (file, line, callee, __future__ features of that file, dont_inherit=True given?).  Code compiled there inherits the
    features unless `dont_inherit=True` is passed (`exec` / `eval` of a string cannot pass it)."""
    files = ['kernprof.py']
    for base, _dirs, names in os.walk(os.path.join(REPO, 'line_profiler')):
        for n in sorted(names):
            if n.endswith('.py'):
                files.append(os.path.relpath(os.path.join(base, n), REPO))
    out = []
    for rel in sorted(files):
        try:
            tree = ast.parse(src_of(rel))
        except SyntaxError:
            continue
        feats = sorted({a.name for n in tree.body if isinstance(n, ast.ImportFrom) and n.module == '__future__' for a in n.names})
        for node in ast.walk(tree):
            if isinstance(node, ast.Call) and isinstance(node.func, ast.Name) and node.func.id in ('compile', 'exec', 'eval'):
                if node.func.id != 'compile' and node.args and isinstance(node.args[0], ast.Call) and ast.unparse(node.args[0].func) == 'compile':
                    continue        # exec(compile(...)): the inner call is the site
                kw = {k.arg: k.value for k in node.keywords}
                di = kw.get('dont_inherit')
                if di is None and node.func.id == 'compile' and len(node.args) >= 5:
                    di = node.args[4]
                out.append((rel, node.lineno, node.func.id, feats, isinstance(di, ast.Constant) and di.value is True))
    return out


def gen_compile_sites():
    out = ['/-! Where kernprof and the package compile code they were handed (scripts, rewritten trees, statements), and the `__future__` features of',
           '    the compiling file — copied from the tree by tools/extract.py, regenerated on every run. -/', 'namespace LPVerif.Generated', '']
    out.append('/-- (file, line, callee, `from __future__ import …` names of that file, `dont_inherit=True` passed) -/')
    out.append('def compileSites : List (String × Nat × String × List String × Bool) := [')
    out.append(',\n'.join('  (%s, %d, %s, [%s], %s)' % (lean_str(f), l, lean_str(c), ', '.join(lean_str(x) for x in ft), 'true' if di else 'false')
                          for f, l, c, ft, di in compile_sites()))
    out.append(']')
    out.append('')
    out.append('end LPVerif.Generated')
    return '\n'.join(out) + '\n'


GENERATORS = [('PreParse.lean', gen_pre_parse), ('RelImport.lean', gen_get_module),
              ('KernprofOptions.lean', gen_kernprof_options), ('ExplicitTables.lean', gen_explicit_tables),
              ('Explicit.lean', gen_explicit_methods), ('WrapTables.lean', gen_wrap_tables), ('Skeletons.lean', gen_skeletons), ('ReportTables.lean', gen_report_tables), ('ChannelTables.lean', gen_channel_tables), ('TimerProg.lean', gen_timer_prog), ('ArgFlow.lean', gen_arg_flow), ('CompileSites.lean', gen_compile_sites)]


def regenerate(log=None):
    """Rewrite every generated file whose content changed; returns the list of changed files."""
    changed = []
    os.makedirs(GEN_DIR, exist_ok=True)
    for fname, fn in GENERATORS:
        try:
            text = fn()
        except Exception as e:   # the source no longer parses the way the translator expects
            text = ('/- translator failure: %s -/\n#eval (show Nat from "translator failed")\n' % str(e).replace('-/', '- /'))
        p = os.path.join(GEN_DIR, fname)
        old = open(p).read() if os.path.exists(p) else None
        if old != text:
            with open(p, 'w') as fh:
                fh.write(text)
            changed.append(fname)
    return changed


if __name__ == '__main__':
    print(regenerate(print))
