"""Shared machinery of the /verif checks (see DESIGN.md §3).

Everything here runs offline, with /venv/bin/python for anything that touches the real code.
Paths are relative to the directory that contains `check`; the only absolute paths are the tree
under test (/repo, override with LPVERIF_REPO) and the scratch root (/var/tmp/lpverif).
"""
import contextlib
import fcntl
import hashlib
import json
import os
import shutil
import subprocess
import sys
import sysconfig
import time

ROOT = os.path.dirname(os.path.dirname(os.path.abspath(__file__)))
REPO = os.environ.get('LPVERIF_REPO', '/repo')
SCRATCH_ROOT = os.environ.get('LPVERIF_SCRATCH', '/var/tmp/lpverif')
LEAN_DIR = os.path.join(ROOT, 'lean')
PY = '/venv/bin/python'
GUARD = 'PYUTILS_LINE_PROFILER_VERIF'


# ----------------------------------------------------------------------------- PRNG
class SplitMix64:
    """All random choices of a run derive from one of these, seeded by VERIF_SEED."""
    M = (1 << 64) - 1

    def __init__(self, seed):
        self.s = seed & self.M

    def next(self):
        self.s = (self.s + 0x9E3779B97F4A7C15) & self.M
        z = self.s
        z = ((z ^ (z >> 30)) * 0xBF58476D1CE4E5B9) & self.M
        z = ((z ^ (z >> 27)) * 0x94D049BB133111EB) & self.M
        return z ^ (z >> 31)

    def below(self, n):
        return self.next() % n if n > 0 else 0

    def chance(self, num, den):
        return self.below(den) < num

    def choice(self, seq):
        return seq[self.below(len(seq))]

    def shuffle(self, lst):
        for i in range(len(lst) - 1, 0, -1):
            j = self.below(i + 1)
            lst[i], lst[j] = lst[j], lst[i]

    def sample(self, seq, k):
        lst = list(seq)
        self.shuffle(lst)
        return lst[:k]

    def fork(self, tag):
        h = hashlib.sha256(('%d/%s' % (self.s, tag)).encode()).digest()
        return SplitMix64(int.from_bytes(h[:8], 'big'))


def seed_from_env():
    try:
        return int(os.environ.get('VERIF_SEED', '0'))
    except ValueError:
        return 0


# ----------------------------------------------------------------------------- locks
@contextlib.contextmanager
def file_lock(name):
    d = os.path.join(SCRATCH_ROOT, 'locks')
    os.makedirs(d, exist_ok=True)
    with open(os.path.join(d, name + '.lock'), 'w') as fh:
        fcntl.flock(fh, fcntl.LOCK_EX)
        try:
            yield
        finally:
            fcntl.flock(fh, fcntl.LOCK_UN)


# ----------------------------------------------------------------------------- building the tree
SRC_FILES_EXCLUDE = ('.so', '.cpp', '.pyc', '.o', '.html')


def tree_files():
    """Source files of the tree that the scratch build is made of (relative paths)."""
    out = ['kernprof.py']
    base = os.path.join(REPO, 'line_profiler')
    for dp, dn, fn in os.walk(base):
        dn[:] = [d for d in dn if d != '__pycache__']
        for f in sorted(fn):
            if f.endswith(SRC_FILES_EXCLUDE):
                continue
            out.append(os.path.relpath(os.path.join(dp, f), REPO))
    return sorted(out)


def tree_hash(extra=''):
    h = hashlib.sha256(extra.encode())
    for rel in tree_files():
        h.update(rel.encode() + b'\0')
        with open(os.path.join(REPO, rel), 'rb') as fh:
            h.update(fh.read())
        h.update(b'\0')
    return h.hexdigest()[:16]


class BuildError(Exception):
    pass


def build_repo(vclock=True, log=None):
    """Copy the tree's sources into scratch, cythonize and compile the extension there.

    Returns the scratch directory (to be put first on PYTHONPATH: it shadows the editable install).
    Builds are keyed by a hash of the source files, so a changed tree is always rebuilt; builds of
    other trees are pruned.  With vclock=True the tree's timers.c is wrapped by the virtual clock
    (tools/vclock_timers.c); everything else is the tree's.
    """
    os.makedirs(SCRATCH_ROOT, exist_ok=True)
    kind = 'vclock' if vclock else 'plain'
    with open(os.path.join(ROOT, 'tools', 'vclock_timers.c'), 'rb') as fh:
        vsrc = fh.read()
    key = tree_hash(kind + (hashlib.sha256(vsrc).hexdigest() if vclock else ''))
    dest = os.path.join(SCRATCH_ROOT, 'build-%s-%s' % (kind, key))
    with file_lock('build-' + kind):
        if os.path.exists(os.path.join(dest, '.ok')):
            os.utime(dest)
            return dest
        t0 = time.time()
        # prune builds of other trees (keep scratch small)
        for d in os.listdir(SCRATCH_ROOT):
            if d.startswith('build-%s-' % kind) and d != os.path.basename(dest):
                # a build another check is using right now (touched on every use) is left alone
                try:
                    if time.time() - os.path.getmtime(os.path.join(SCRATCH_ROOT, d)) < 1800:
                        continue
                except OSError:
                    continue
                shutil.rmtree(os.path.join(SCRATCH_ROOT, d), ignore_errors=True)
        shutil.rmtree(dest, ignore_errors=True)
        os.makedirs(dest)
        for rel in tree_files():
            dst = os.path.join(dest, rel)
            os.makedirs(os.path.dirname(dst), exist_ok=True)
            shutil.copy2(os.path.join(REPO, rel), dst)
        lp = os.path.join(dest, 'line_profiler')
        if vclock:
            os.rename(os.path.join(lp, 'timers.c'), os.path.join(lp, 'timers_real.c'))
            with open(os.path.join(lp, 'timers.c'), 'wb') as fh:
                fh.write(vsrc)
        env = dict(os.environ)
        env[GUARD] = '1'
        cpp = os.path.join(lp, '_line_profiler.cpp')
        r = subprocess.run([PY, '-m', 'cython', '--cplus', '-3', os.path.join(lp, '_line_profiler.pyx'),
                            '-o', cpp], capture_output=True, text=True, env=env, cwd=dest)
        if r.returncode != 0:
            raise BuildError('cython failed:\n' + r.stdout + r.stderr)
        inc = subprocess.run([PY, '-c', 'import sysconfig;print(sysconfig.get_paths()["include"]);'
                              'print(sysconfig.get_config_var("EXT_SUFFIX"))'],
                             capture_output=True, text=True).stdout.split()
        so = os.path.join(lp, '_line_profiler' + inc[1])
        r = subprocess.run(['g++', '-O1', '-shared', '-fPIC', '-w', '-I' + inc[0], '-I' + lp, cpp, '-o', so],
                           capture_output=True, text=True)
        if r.returncode != 0:
            raise BuildError('g++ failed:\n' + r.stdout + r.stderr)
        os.remove(cpp)
        with open(os.path.join(dest, '.ok'), 'w') as fh:
            fh.write('%.1f' % (time.time() - t0))
        if log:
            log('built %s in %.1fs' % (dest, time.time() - t0))
        return dest


def real_env(build_dir, **extra):
    env = dict(os.environ)
    env['PYTHONPATH'] = build_dir
    env[GUARD] = '1'
    env.pop('LINE_PROFILE', None)
    env['PYTHONDONTWRITEBYTECODE'] = '1'
    env.update(extra)
    return env


def run_worker(build_dir, script, payload, timeout=600, env_extra=None, args=()):
    """Run harness/<script> under /venv/bin/python against the scratch build; JSON in, JSON out."""
    env = real_env(build_dir, **(env_extra or {}))
    env['LPVERIF_ROOT'] = ROOT
    p = subprocess.run([PY, os.path.join(ROOT, 'harness', script), *args], input=json.dumps(payload),
                       capture_output=True, text=True, env=env, timeout=timeout)
    if p.returncode != 0:
        raise RuntimeError('worker %s failed (%d):\n%s\n%s' % (script, p.returncode, p.stdout[-2000:], p.stderr[-4000:]))
    # the last line of stdout is the JSON result (programs under test may print)
    lines = [l for l in p.stdout.splitlines() if l.startswith('{"lpverif"')]
    if not lines:
        raise RuntimeError('worker %s: no result\n%s\n%s' % (script, p.stdout[-2000:], p.stderr[-2000:]))
    return json.loads(lines[-1])['lpverif']


# ----------------------------------------------------------------------------- Lean
def lean_env():
    env = dict(os.environ)
    return env


def run_cmd(cmd, cwd=None, timeout=3600, input=None, env=None):
    p = subprocess.run(cmd, cwd=cwd, capture_output=True, text=True, timeout=timeout, input=input, env=env)
    return p.returncode, p.stdout, p.stderr


def lean_driver(model, lines, timeout=1800):
    """Feed op lines to the Lean model driver, return its output lines."""
    inp = '\n'.join(lines) + '\n'
    cmd = ['lake', 'env', 'lean', '--run', 'drivers/%s.lean' % model]
    exe = os.path.join(LEAN_DIR, '.lake', 'build', 'bin', '%s_driver' % model)
    if os.path.exists(exe):
        # the compiled driver is used only when no model / driver source is newer than it (lake rebuilds it in every check)
        newest = 0
        for dp, _dn, fn in os.walk(os.path.join(LEAN_DIR, 'LPVerif')):
            for f in fn:
                if f.endswith('.lean'):
                    newest = max(newest, os.path.getmtime(os.path.join(dp, f)))
        newest = max(newest, os.path.getmtime(os.path.join(LEAN_DIR, 'drivers', '%s.lean' % model)))
        if os.path.getmtime(exe) >= newest:
            cmd = [exe]
    rc, out, err = run_cmd(cmd, cwd=LEAN_DIR, input=inp, timeout=timeout)
    if rc != 0:
        raise RuntimeError('lean driver failed (%d): %s %s' % (rc, out[-2000:], err[-2000:]))
    return out.splitlines()


def now():
    return time.time()
