#!/bin/bash
# usage: tools/seed_run.sh <name> <check ids...>   — apply seeded/<name>/patch.diff to /repo, run checks (quick), restore
NAME=$1; shift
cd /verif
rm -rf /var/tmp/lpverif/evidence.keep && cp -r /verif/evidence /var/tmp/lpverif/evidence.keep   # evidence of the unchanged tree is what stays committed
git -C /repo apply --whitespace=nowarn /verif/seeded/$NAME/patch.diff || { echo "PATCH DOES NOT APPLY"; exit 3; }
for c in "$@"; do
  ./check $c --tier quick > seeded/$NAME/check_$c.log 2>&1; rc=$?
  echo "$NAME $c exit=$rc $(grep -h 'VIOLATION' seeded/$NAME/check_$c.log | head -1)"
done
git -C /repo checkout -- .
rm -rf /verif/evidence && mv /var/tmp/lpverif/evidence.keep /verif/evidence
(cd /verif/tools && python3 -c 'import extract; extract.regenerate()')   # Generated/ back to the unchanged tree
