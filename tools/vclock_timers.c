/* verification build only: virtual clock wrapped around the tree's own timers.c */
#define hpTimer real_hpTimer
#define hpTimerUnit real_hpTimerUnit
#include "timers_real.c"
#undef hpTimer
#undef hpTimerUnit
#ifdef __cplusplus
#define VEXPORT extern "C" __attribute__((visibility("default")))
#else
#define VEXPORT __attribute__((visibility("default")))
#endif
static int       verif_virtual = 0;
static long long verif_now = 0, verif_delta = 0, verif_reads = 0;
VEXPORT void      verif_clock_mode(int on, long long delta) { verif_virtual = on; verif_delta = delta; }
VEXPORT void      verif_clock_set(long long t) { verif_now = t; }
VEXPORT void      verif_clock_advance(long long d) { verif_now += d; }
VEXPORT long long verif_clock_get(void) { return verif_now; }
VEXPORT long long verif_clock_reads(void) { return verif_reads; }
PY_LONG_LONG hpTimer(void) {
    if (!verif_virtual) return real_hpTimer();
    verif_reads++;
    long long t = verif_now; verif_now += verif_delta; return t;
}
double hpTimerUnit(void) { return real_hpTimerUnit(); }
